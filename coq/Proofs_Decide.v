(* Proofs_Decide.v — the hypotheses of load_save as ONE computable predicate.  ls_ok_b s = true implies every
   hypothesis of load_save_sparse (each well-formedness predicate is reflected by a boolean function), hence
   load (save s) = Ok (reloaded s ...) (C01), and with C04's theorem the byte-identical second generation.
   The predicate is extracted and evaluated by the C01/C04/C17 checks on every object they save: the evidence
   reports on how many of the compared objects the theorem applies. *)
From Coq Require Import Lia ZifyNat ZifyN ZifyBool Bool.
From EZ Require Import Base Bytes Types Api Enc Dec Proofs_Bytes Proofs_Lookup Proofs_Param Proofs_Codec Proofs_Section
  Proofs_Record Proofs_Chain Proofs_ChainW Proofs_HeaderCodec Proofs_Guards Proofs_RoundTrip.
Local Open Scope N_scope.

Lemma forallb_Forall : forall A (f : A -> bool) (P : A -> Prop) l,
  (forall x, f x = true -> P x) -> forallb f l = true -> Forall P l.
Proof.
  intros A f P l H Hb. apply Forall_forall. intros x Hx. apply H. rewrite forallb_forall in Hb. exact (Hb x Hx).
Qed.

(* ---------- leaves ---------- *)
Definition no_nul_b (s : list N) : bool := forallb (fun b => negb (b =? 0)) s.
Lemma no_nul_b_ok : forall s, no_nul_b s = true -> no_nul s.
Proof. intros s. apply forallb_Forall. intros x Hx. lia. Qed.

Definition u16_b (v : N) : bool := v <? 65536.
Lemma u16_b_ok : forall v, u16_b v = true -> u16 v.
Proof. unfold u16_b, u16. intros; lia. Qed.
Definition wf32_b (v : N) : bool := v <? 4294967296.
Lemma wf32_b_ok : forall v, wf32_b v = true -> wf32 v.
Proof. unfold wf32_b, wf32. intros; lia. Qed.
Definition frame_no_b (v : N) : bool := (v <? two64) && (wrap64 (v + 1) <? 65536).
Lemma frame_no_b_ok : forall v, frame_no_b v = true -> frame_no_ok v.
Proof. unfold frame_no_b, frame_no_ok. intros v H. apply andb_prop in H. destruct H as [H1 H2]. split; lia. Qed.
Definition lab_b (s : bstr) : bool := (length s <=? 4)%nat && no_nul_b s.
Lemma lab_b_ok : forall s, lab_b s = true -> lab_ok s.
Proof.
  unfold lab_b, lab_ok. intros s H. apply andb_prop in H. destruct H as [H1 H2]. split; [apply Nat.leb_le; exact H1|apply no_nul_b_ok; exact H2].
Qed.

Definition name_ok_b (n : bstr) : bool := (1 <=? length n)%nat && (length n <=? 127)%nat && no_nul_b (upper n).
Lemma name_ok_b_ok : forall n, name_ok_b n = true -> name_ok n.
Proof.
  unfold name_ok_b, name_ok. intros n H. apply andb_prop in H. destruct H as [H H3]. apply andb_prop in H. destruct H as [H1 H2].
  apply Nat.leb_le in H1. apply Nat.leb_le in H2. split; [lia|apply no_nul_b_ok; exact H3].
Qed.
Definition desc_ok_b (d : bstr) : bool := (length d <=? 255)%nat && no_nul_b d.
Lemma desc_ok_b_ok : forall d, desc_ok_b d = true -> desc_ok d.
Proof.
  unfold desc_ok_b, desc_ok. intros d H. apply andb_prop in H. destruct H as [H1 H2]. apply Nat.leb_le in H1.
  split; [exact H1|apply no_nul_b_ok; exact H2].
Qed.

(* ---------- the header ---------- *)
Definition wf_hdr_b (h : header) : bool :=
  (h_zeros h =? 0) && (h_paddr h =? 2) && (h_check h =? 80) &&
  u16_b (h_points h) && u16_b (h_meas h) && frame_no_b (h_first h) && frame_no_b (h_last h) && u16_b (h_gap h) &&
  ((-2147483648 <=? h_scale h)%Z && (h_scale h <? 2147483648)%Z) && u16_b (h_byframe h) && wf32_b (h_rate h) &&
  (h_e1 h =? 0)%Z && (h_e2 h =? 0)%Z && (h_e3 h =? 0)%Z && (h_e4 h =? 0)%Z &&
  u16_b (h_keylab h) && u16_b (h_keyblk h) && u16_b (h_four h) && u16_b (h_nev h) &&
  (forallb wf32_b (h_evtime h) && (length (h_evtime h) =? 18)%nat) &&
  (forallb u16_b (h_evdisp h) && (length (h_evdisp h) =? 9)%nat) &&
  (forallb lab_b (h_evlab h) && (length (h_evlab h) =? 18)%nat).

Ltac split_andb H :=
  repeat match type of H with
  | (_ && _) = true => let H2 := fresh "Hb" in apply andb_prop in H; destruct H as [H H2]
  end.

Lemma wf_hdr_b_ok : forall h, wf_hdr_b h = true -> wf_hdr h /\ wf_header h.
Proof.
  intros h H. unfold wf_hdr_b in H.
  apply andb_prop in H. destruct H as [H L3]. apply andb_prop in L3. destruct L3 as [L3a L3b].
  apply andb_prop in H. destruct H as [H L2]. apply andb_prop in L2. destruct L2 as [L2a L2b].
  apply andb_prop in H. destruct H as [H L1]. apply andb_prop in L1. destruct L1 as [L1a L1b].
  apply andb_prop in H. destruct H as [H A19]. apply andb_prop in H. destruct H as [H A18].
  apply andb_prop in H. destruct H as [H A17]. apply andb_prop in H. destruct H as [H A16].
  apply andb_prop in H. destruct H as [H A15]. apply andb_prop in H. destruct H as [H A14].
  apply andb_prop in H. destruct H as [H A13]. apply andb_prop in H. destruct H as [H A12].
  apply andb_prop in H. destruct H as [H A11]. apply andb_prop in H. destruct H as [H A10].
  apply andb_prop in H. destruct H as [H A9]. apply andb_prop in H. destruct H as [H A8].
  apply andb_prop in H. destruct H as [H A7]. apply andb_prop in H. destruct H as [H A6].
  apply andb_prop in H. destruct H as [H A5]. apply andb_prop in H. destruct H as [H A4].
  apply andb_prop in H. destruct H as [H A3]. apply andb_prop in H. destruct H as [A1 A2].
  apply Nat.eqb_eq in L1b, L2b, L3b.
  split.
  - unfold wf_hdr.
    split; [lia|]. split; [lia|]. split; [lia|].
    split; [apply u16_b_ok; exact A4|]. split; [apply u16_b_ok; exact A5|].
    split; [apply frame_no_b_ok; exact A6|]. split; [apply frame_no_b_ok; exact A7|].
    split; [apply u16_b_ok; exact A8|]. split; [unfold int32; lia|].
    split; [apply u16_b_ok; exact A10|]. split; [apply wf32_b_ok; exact A11|].
    split; [lia|]. split; [lia|]. split; [lia|]. split; [lia|].
    split; [apply u16_b_ok; exact A16|]. split; [apply u16_b_ok; exact A17|].
    split; [apply u16_b_ok; exact A18|]. split; [apply u16_b_ok; exact A19|].
    split; [split; [exact (forallb_Forall _ _ _ _ wf32_b_ok L1a)|exact L1b]|].
    split; [split; [exact (forallb_Forall _ _ _ _ u16_b_ok L2a)|exact L2b]|].
    split; [exact (forallb_Forall _ _ _ _ lab_b_ok L3a)|exact L3b].
  - unfold wf_header. auto.
Qed.

(* ---------- parameters ---------- *)
Definition str_ok_b (w : N) (s : bstr) : bool := (nlen s <=? w) && no_nul_b s && bstr_eqb (rtrim s) s.
Lemma str_ok_b_ok : forall w s, str_ok_b w s = true -> str_ok w s.
Proof.
  unfold str_ok_b, str_ok. intros w s H. apply andb_prop in H. destruct H as [H H3]. apply andb_prop in H. destruct H as [H1 H2].
  split; [lia|]. split; [apply no_nul_b_ok; exact H2|apply bstr_eqb_eq; exact H3].
Qed.

Definition dims_ok_b (dims : list N) : bool :=
  negb (length dims =? 0)%nat && (length dims <=? 255)%nat && forallb (fun d => d <? 256) dims &&
  (prodN dims <? 2147483648) && (loop_cost dims 1 <=? LIMC).
Lemma dims_ok_b_ok : forall d, dims_ok_b d = true -> dims_ok d.
Proof.
  unfold dims_ok_b, dims_ok. intros d H.
  apply andb_prop in H. destruct H as [H H5]. apply andb_prop in H. destruct H as [H H4].
  apply andb_prop in H. destruct H as [H H3]. apply andb_prop in H. destruct H as [H1 H2].
  split; [intros E; rewrite E in H1; discriminate|].
  split; [apply Nat.leb_le; exact H2|].
  split; [refine (forallb_Forall _ _ _ _ _ H3); intros x Hx; unfold byte_ok; lia|].
  split; lia.
Qed.

Definition nil_b {A} (l : list A) : bool := match l with [] => true | _ => false end.
Lemma nil_b_ok : forall A (l : list A), nil_b l = true -> l = [].
Proof. intros A [|x l] H; [reflexivity|discriminate]. Qed.

Definition int16_b (z : Z) : bool := ((-32768 <=? z) && (z <? 32768))%Z.
Definition int8_b (z : Z) : bool := ((-128 <=? z) && (z <? 128))%Z.

Definition typed_ok_b (p : param) : bool :=
  match p_type p with
  | TInt => forallb int16_b (p_ints p) && (nlen (p_ints p) =? prodN (p_dims p)) && nil_b (p_floats p) && nil_b (p_strs p)
  | TByte => forallb int8_b (p_ints p) && (nlen (p_ints p) =? prodN (p_dims p)) && nil_b (p_floats p) && nil_b (p_strs p)
  | TFloat => forallb wf32_b (p_floats p) && (nlen (p_floats p) =? prodN (p_dims p)) && nil_b (p_ints p) && nil_b (p_strs p)
  | TChar => nil_b (p_ints p) && nil_b (p_floats p) &&
      match p_dims p with
      | [] => false
      | [w] => if w =? 0 then nil_b (p_strs p) else match p_strs p with [s0] => str_ok_b w s0 | _ => false end
      | w :: rest => (nlen (p_strs p) =? prodN rest) && forallb (str_ok_b w) (p_strs p) && (loop_cost rest 1 <=? LIMC)
      end
  | TNone => false
  end.

Lemma typed_ok_b_ok : forall p, typed_ok_b p = true -> typed_ok p.
Proof.
  intros p H. unfold typed_ok_b in H. unfold typed_ok. destruct (p_type p).
  - apply andb_prop in H. destruct H as [H H2]. apply andb_prop in H. destruct H as [H1 H0].
    split; [apply nil_b_ok; exact H1|]. split; [apply nil_b_ok; exact H0|].
    destruct (p_dims p) as [|w rest]; [discriminate|]. destruct rest as [|d rest].
    + destruct (w =? 0) eqn:E.
      * left. split; [lia|apply nil_b_ok; exact H2].
      * right. split; [lia|]. destruct (p_strs p) as [|s0 [|s1 t]]; try discriminate.
        exists s0. split; [reflexivity|apply str_ok_b_ok; exact H2].
    + apply andb_prop in H2. destruct H2 as [H2 Hc]. apply andb_prop in H2. destruct H2 as [Ha Hb].
      split; [lia|]. split; [exact (forallb_Forall _ _ _ _ (str_ok_b_ok w) Hb)|lia].
  - apply andb_prop in H. destruct H as [H H4]. apply andb_prop in H. destruct H as [H H3]. apply andb_prop in H. destruct H as [H1 H2].
    split; [refine (forallb_Forall _ _ _ _ _ H1); intros x Hx; unfold int8_b in Hx; unfold int8; lia|].
    split; [lia|]. split; apply nil_b_ok; assumption.
  - apply andb_prop in H. destruct H as [H H4]. apply andb_prop in H. destruct H as [H H3]. apply andb_prop in H. destruct H as [H1 H2].
    split; [refine (forallb_Forall _ _ _ _ _ H1); intros x Hx; unfold int16_b in Hx; unfold int16; lia|].
    split; [lia|]. split; apply nil_b_ok; assumption.
  - apply andb_prop in H. destruct H as [H H4]. apply andb_prop in H. destruct H as [H H3]. apply andb_prop in H. destruct H as [H1 H2].
    split; [exact (forallb_Forall _ _ _ _ wf32_b_ok H1)|].
    split; [lia|]. split; apply nil_b_ok; assumption.
  - discriminate.
Qed.

Definition wf_param_b (p : param) : bool :=
  name_ok_b (p_name p) && desc_ok_b (p_desc p) && dims_ok_b (p_dims p) && typed_ok_b p.
Lemma wf_param_b_ok : forall p, wf_param_b p = true -> wf_param p.
Proof.
  unfold wf_param_b, wf_param. intros p H.
  apply andb_prop in H. destruct H as [H H4]. apply andb_prop in H. destruct H as [H H3]. apply andb_prop in H. destruct H as [H1 H2].
  split; [apply name_ok_b_ok; exact H1|]. split; [apply desc_ok_b_ok; exact H2|].
  split; [apply dims_ok_b_ok; exact H3|apply typed_ok_b_ok; exact H4].
Qed.

Definition type_eqb (a b : ptype) : bool :=
  match a, b with TChar, TChar | TByte, TByte | TInt, TInt | TFloat, TFloat | TNone, TNone => true | _, _ => false end.
Lemma type_eqb_ok : forall a b, type_eqb a b = true -> a = b.
Proof. intros [] [] H; try reflexivity; discriminate. Qed.

Definition ok_param_b (p : param) : bool :=
  if is_ds p then type_eqb (p_type p) TInt && match p_dims p with [d] => d =? 1 | _ => false end else wf_param_b p.
Lemma ok_param_b_ok : forall p, ok_param_b p = true -> ok_param p.
Proof.
  unfold ok_param_b, ok_param. intros p H. destruct (is_ds p).
  - apply andb_prop in H. destruct H as [H1 H2]. split; [apply type_eqb_ok; exact H1|].
    destruct (p_dims p) as [|d [|e t]]; try discriminate. f_equal. lia.
  - apply wf_param_b_ok; exact H.
Qed.

Definition wf_group_hdr_b (g : group) : bool := name_ok_b (g_name g) && desc_ok_b (g_desc g).
Lemma wf_group_hdr_b_ok : forall g, wf_group_hdr_b g = true -> wf_group_hdr g.
Proof.
  unfold wf_group_hdr_b, wf_group_hdr. intros g H. apply andb_prop in H. destruct H as [H1 H2].
  split; [apply name_ok_b_ok; exact H1|apply desc_ok_b_ok; exact H2].
Qed.

Definition ok_tree_b (gs : list group) : bool :=
  forallb (fun g => is_placeholder g || (wf_group_hdr_b g && forallb ok_param_b (g_params g))) gs.
Lemma ok_tree_b_ok : forall gs, ok_tree_b gs = true -> ok_tree gs.
Proof.
  unfold ok_tree_b, ok_tree. intros gs H g Hg Hp. rewrite forallb_forall in H. specialize (H g Hg). rewrite Hp in H. cbn [orb] in H.
  apply andb_prop in H. destruct H as [H1 H2]. split; [apply wf_group_hdr_b_ok; exact H1|].
  intros p Hin. apply ok_param_b_ok. rewrite forallb_forall in H2. exact (H2 p Hin).
Qed.

(* no repeated name *)
Fixpoint nodup_b (l : list bstr) : bool :=
  match l with [] => true | x :: t => negb (existsb (bstr_eqb x) t) && nodup_b t end.
Lemma nodup_b_ok : forall l, nodup_b l = true -> NoDup l.
Proof.
  induction l as [|x t IH]; intros H; [constructor|]. cbn [nodup_b] in H. apply andb_prop in H. destruct H as [H1 H2].
  constructor; [|apply IH; exact H2]. intros Hin. apply negb_true_iff in H1.
  assert (E : existsb (bstr_eqb x) t = true) by (apply existsb_exists; exists x; split; [exact Hin|apply bstr_eqb_eq; reflexivity]).
  rewrite E in H1. discriminate.
Qed.

Definition group_ok_b (g : group) : bool :=
  nodup_b (map (fun p => upper (p_name p)) (g_params g)) && forallb (fun p => negb (type_eqb (p_type p) TNone)) (g_params g).
Lemma group_ok_b_ok : forall g, group_ok_b g = true -> group_ok g.
Proof.
  unfold group_ok_b, group_ok. intros g H. apply andb_prop in H. destruct H as [H1 H2]. split; [apply nodup_b_ok; exact H1|].
  intros p Hp E. rewrite forallb_forall in H2. specialize (H2 p Hp). rewrite E in H2. discriminate.
Qed.

Definition group_eqb_ph (g : group) : bool := nil_b (g_name g) && nil_b (g_desc g) && negb (g_lock g) && nil_b (g_params g).
Lemma group_eqb_ph_ok : forall g, group_eqb_ph g = true -> g = ph.
Proof.
  intros [n d l ps] H. unfold group_eqb_ph in H. cbn in H.
  apply andb_prop in H. destruct H as [H H4]. apply andb_prop in H. destruct H as [H H3]. apply andb_prop in H. destruct H as [H1 H2].
  apply nil_b_ok in H1, H2, H4. apply negb_true_iff in H3. subst. reflexivity.
Qed.

Definition wf_item_b (it : item) : bool :=
  match it with
  | IG gid g => ((1 <=? gid) && (gid <=? 127))%Z && wf_group_hdr_b g
  | IP gid p => ((1 <=? gid) && (gid <=? 127))%Z && wf_param_b p && (2 + zlen (param_body p) + zlen (param_tail p) <? 65536)%Z
  end.
Lemma wf_item_b_ok : forall it, wf_item_b it = true -> wf_item it.
Proof.
  intros [gid g|gid p] H; cbn [wf_item_b wf_item] in *.
  - apply andb_prop in H. destruct H as [H1 H2]. split; [lia|apply wf_group_hdr_b_ok; exact H2].
  - apply andb_prop in H. destruct H as [H H3]. apply andb_prop in H. destruct H as [H1 H2].
    split; [lia|]. split; [apply wf_param_b_ok; exact H2|lia].
Qed.

(* ---------- frames ---------- *)
Definition wf_point_b (p : point) : bool := wf32_b (pt_x p) && wf32_b (pt_y p) && wf32_b (pt_z p) && wf32_b (pt_r p).
Definition uniform_b (np ns nc : nat) (f : frame) : bool :=
  (length (fr_pts f) =? np)%nat && forallb wf_point_b (fr_pts f) && (length (fr_subs f) =? ns)%nat &&
  forallb (fun sf => (length sf =? nc)%nat && forallb (fun c => wf32_b (ch_v c)) sf) (fr_subs f).
Lemma uniform_b_ok : forall np ns nc f, uniform_b np ns nc f = true -> uniform np ns nc f.
Proof.
  unfold uniform_b, uniform. intros np ns nc f H.
  apply andb_prop in H. destruct H as [H H4]. apply andb_prop in H. destruct H as [H H3]. apply andb_prop in H. destruct H as [H1 H2].
  split; [apply Nat.eqb_eq; exact H1|]. split.
  - refine (forallb_Forall _ _ _ _ _ H2). intros p Hp. unfold wf_point_b in Hp. unfold wf_point.
    apply andb_prop in Hp. destruct Hp as [Hp P4]. apply andb_prop in Hp. destruct Hp as [Hp P3]. apply andb_prop in Hp. destruct Hp as [P1 P2].
    repeat split; apply wf32_b_ok; assumption.
  - split; [apply Nat.eqb_eq; exact H3|]. refine (forallb_Forall _ _ _ _ _ H4). intros sf Hs.
    apply andb_prop in Hs. destruct Hs as [S1 S2]. split; [apply Nat.eqb_eq; exact S1|].
    refine (forallb_Forall _ _ _ _ _ S2). intros c Hc. unfold wf_chan. apply wf32_b_ok; exact Hc.
Qed.

(* ---------- the whole object ---------- *)
Section WithOps.
Variable f_key : f32 -> outcome Z.
Variable f_tosize : f32 -> outcome N.
Variable f_div : f32 -> f32 -> f32.

Definition header_agrees_b (gs : list group) (h : header) : bool :=
  match r_float0 0 gs nm_POINT nm_RATE with
  | Ok rate =>
    match f_key rate, f_key (h_rate h), r_int0 0 gs nm_POINT nm_USED, group_named gs nm_ANALOG,
          r_int0 0 gs nm_ANALOG nm_USED, r_int0 0 gs nm_POINT nm_FRAMES with
    | Ok k, Ok k', Ok u, Ok ga, Ok au, Ok fz =>
        (k =? k')%Z && (z_to_usize u =? h_points h) && negb (nlen (g_params ga) =? 0) &&
        (if f32_is_zero rate then h_byframe h =? 1
         else match r_float0 0 gs nm_ANALOG nm_RATE with
              | Ok ar => match f_tosize (f_div ar rate) with Ok b => b =? h_byframe h | _ => false end
              | _ => false
              end) &&
        (z_to_usize au =? h_nb_analogs h) && (z_to_usize fz =? h_nb_frames h)
    | _, _, _, _, _, _ => false
    end
  | _ => false
  end.

Lemma header_agrees_b_ok : forall gs h, header_agrees_b gs h = true -> header_agrees f_key f_tosize f_div gs h.
Proof.
  intros gs h H. unfold header_agrees_b in H.
  destruct (r_float0 0 gs nm_POINT nm_RATE) as [rate| |] eqn:Er; try discriminate.
  destruct (f_key rate) as [k| |] eqn:Ek; try discriminate.
  destruct (f_key (h_rate h)) as [k'| |] eqn:Ek'; try discriminate.
  destruct (r_int0 0 gs nm_POINT nm_USED) as [u| |] eqn:Eu; try discriminate.
  destruct (group_named gs nm_ANALOG) as [ga| |] eqn:Ega; try discriminate.
  destruct (r_int0 0 gs nm_ANALOG nm_USED) as [au| |] eqn:Eau; try discriminate.
  destruct (r_int0 0 gs nm_POINT nm_FRAMES) as [fz| |] eqn:Efz; try discriminate.
  apply andb_prop in H. destruct H as [H H6]. apply andb_prop in H. destruct H as [H H5]. apply andb_prop in H. destruct H as [H H4].
  apply andb_prop in H. destruct H as [H H3]. apply andb_prop in H. destruct H as [H1 H2].
  assert (k' = k) by lia. subst k'.
  exists rate, k, u, ga, au, fz.
  split; [exact Er|]. split; [exact Ek|]. split; [exact Ek'|]. split; [exact Eu|]. split; [lia|].
  split; [exact Ega|]. split; [lia|]. split.
  - destruct (f32_is_zero rate) eqn:Z0.
    + left. split; [reflexivity|lia].
    + right. destruct (r_float0 0 gs nm_ANALOG nm_RATE) as [ar| |] eqn:Ear; try discriminate.
      destruct (f_tosize (f_div ar rate)) as [b| |] eqn:Eb; try discriminate.
      exists ar. split; [reflexivity|]. split; [first [exact Ear|reflexivity]|]. first [rewrite Eb|idtac]. f_equal. lia.
  - split; [exact Eau|]. split; [lia|]. split; [exact Efz|lia].
Qed.

Definition names_of (cond : bool) (gs : list group) (gname : bstr) : option (list bstr) :=
  if cond then match obind (group_named gs gname) (fun g => obind (param_named g nm_LABELS) values_as_string) with
               | Ok x => Some x | _ => None end
  else Some [].

(* what load (save s) is going to be, when it is defined *)
Definition ls_args (s : state) : option (list N * N * list bstr * list bstr) :=
  match save s, section_bytes (pro s) (groups s) with
  | Ok bytes, Ok (sec, blocks) =>
      let h := with_dstart (hdr s) (blocks + 1) in let gs := map (canon_g (blocks + 1)) (groups s) in
      match names_of (0 <? h_points h) gs nm_POINT, names_of (0 <? h_nb_analogs h) gs nm_ANALOG with
      | Some pn, Some an => Some (bytes, blocks, pn, an)
      | _, _ => None
      end
  | _, _ => None
  end.

Definition last_not_placeholder (gs : list group) : bool :=
  match gs with [] => true | _ => negb (is_placeholder (last gs ph)) end.

Definition ls_ok_b (s : state) : bool :=
  match ls_args s with
  | Some (bytes, blocks, pn, an) =>
      let h := with_dstart (hdr s) (blocks + 1) in let gs := map (canon_g (blocks + 1)) (groups s) in
      wf_hdr_b (hdr s) && ok_tree_b (groups s) && (nds (recs_of (groups s) 1) <=? 1)%nat &&
      forallb (fun g => if is_placeholder g then group_eqb_ph g else group_ok_b g) (groups s) &&
      last_not_placeholder (groups s) &&
      (blocks + 1 <? 256) && (ps_start (pro s) =? 1) &&
      forallb wf_item_b (items_v (groups s) 1 (blocks + 1)) &&
      header_agrees_b gs h &&
      (h_nb_frames h =? nlen (frames s)) && (nlen (frames s) <=? max_frames_vec) &&
      (nlen (frames s) * (1 + 4 * h_points h + h_byframe h * (1 + h_nb_analogs h)) <=? 1048576) &&
      (nil_b (frames s) || (h_scale h <? 0)%Z) &&
      forallb (uniform_b (N.to_nat (h_points h)) (N.to_nat (h_byframe h)) (N.to_nat (h_nb_analogs h))) (frames s)
  | None => false
  end.

(* the same conjuncts one by one, for the evidence of the checks (which hypothesis excludes how many objects) *)
Definition ls_flags (s : state) : list bool :=
  match ls_args s with
  | Some (bytes, blocks, pn, an) =>
      let h := with_dstart (hdr s) (blocks + 1) in let gs := map (canon_g (blocks + 1)) (groups s) in
      [wf_hdr_b (hdr s); ok_tree_b (groups s); (nds (recs_of (groups s) 1) <=? 1)%nat;
       forallb (fun g => if is_placeholder g then group_eqb_ph g else group_ok_b g) (groups s);
       last_not_placeholder (groups s);
       (blocks + 1 <? 256); (ps_start (pro s) =? 1);
       forallb wf_item_b (items_v (groups s) 1 (blocks + 1));
       header_agrees_b gs h;
       (h_nb_frames h =? nlen (frames s)); (nlen (frames s) <=? max_frames_vec);
       (nlen (frames s) * (1 + 4 * h_points h + h_byframe h * (1 + h_nb_analogs h)) <=? 1048576);
       (nil_b (frames s) || (h_scale h <? 0)%Z);
       forallb (uniform_b (N.to_nat (h_points h)) (N.to_nat (h_byframe h)) (N.to_nat (h_nb_analogs h))) (frames s)]
  | None => []
  end.
Lemma ls_flags_all : forall s, ls_ok_b s = (negb (nil_b (ls_flags s)) && forallb (fun b => b) (ls_flags s)).
Proof.
  intros s. unfold ls_ok_b, ls_flags. destruct (ls_args s) as [[[[bytes blocks] pn] an]|]; [|reflexivity].
  cbv zeta. cbn [nil_b negb forallb]. rewrite andb_true_r. rewrite !andb_assoc. reflexivity.
Qed.

Theorem ls_ok_load_save : forall s, ls_ok_b s = true ->
  exists bytes blocks pn an, ls_args s = Some (bytes, blocks, pn, an) /\ save s = Ok bytes /\
    load f_key f_tosize f_div bytes = Ok (reloaded s blocks pn an).
Proof.
  intros s H. unfold ls_ok_b in H. destruct (ls_args s) as [[[[bytes blocks] pn] an]|] eqn:EA; [|discriminate].
  exists bytes, blocks, pn, an. split; [reflexivity|].
  unfold ls_args in EA. destruct (save s) as [bytes'| |] eqn:Sv; try discriminate.
  destruct (section_bytes (pro s) (groups s)) as [[sec blocks']| |] eqn:Sb; try discriminate.
  cbv zeta in EA.
  destruct (names_of (0 <? h_points (with_dstart (hdr s) (blocks' + 1))) (map (canon_g (blocks' + 1)) (groups s)) nm_POINT) as [pn'|] eqn:Npn; try discriminate.
  destruct (names_of (0 <? h_nb_analogs (with_dstart (hdr s) (blocks' + 1))) (map (canon_g (blocks' + 1)) (groups s)) nm_ANALOG) as [an'|] eqn:Nan; try discriminate.
  assert (bytes' = bytes /\ blocks' = blocks /\ pn' = pn /\ an' = an) as (-> & -> & -> & ->) by (repeat split; congruence).
  clear EA. split; [reflexivity|]. cbv zeta in H.
  apply andb_prop in H. destruct H as [H H14]. apply andb_prop in H. destruct H as [H H13]. apply andb_prop in H. destruct H as [H H12].
  apply andb_prop in H. destruct H as [H H11]. apply andb_prop in H. destruct H as [H H10]. apply andb_prop in H. destruct H as [H H9].
  apply andb_prop in H. destruct H as [H H8]. apply andb_prop in H. destruct H as [H H7]. apply andb_prop in H. destruct H as [H H6].
  apply andb_prop in H. destruct H as [H H5]. apply andb_prop in H. destruct H as [H H4]. apply andb_prop in H. destruct H as [H H3].
  apply andb_prop in H. destruct H as [H1 H2].
  destruct (wf_hdr_b_ok _ H1) as [Wh Wl].
  apply (load_save_sparse f_key f_tosize f_div s bytes sec blocks pn an Sv Sb Wh Wl (ok_tree_b_ok _ H2)).
  - apply Nat.leb_le; exact H3.
  - intros g Hg. rewrite forallb_forall in H4. specialize (H4 g Hg). split; intros Hp; rewrite Hp in H4.
    + apply group_eqb_ph_ok; exact H4.
    + apply group_ok_b_ok; exact H4.
  - intros Ne. unfold last_not_placeholder in H5. destruct (groups s) as [|g0 t]; [contradiction|].
    apply negb_true_iff in H5. exact H5.
  - lia.
  - lia.
  - exact (forallb_Forall _ _ _ _ wf_item_b_ok H8).
  - cbv zeta. apply update_header_noop. apply header_agrees_b_ok. exact H9.
  - cbv zeta. split; [lia|]. split; [lia|]. split; [lia|]. split.
    { unfold names_of in Npn. destruct (0 <? h_points (with_dstart (hdr s) (blocks + 1))); [|congruence].
      destruct (obind (group_named _ nm_POINT) _) as [x| |]; try discriminate. congruence. }
    split.
    { unfold names_of in Nan. destruct (0 <? h_nb_analogs (with_dstart (hdr s) (blocks + 1))); [|congruence].
      destruct (obind (group_named _ nm_ANALOG) _) as [x| |]; try discriminate. congruence. }
    split.
    { intros Ne. apply orb_prop in H13. destruct H13 as [E|E]; [apply nil_b_ok in E; contradiction|lia]. }
    exact (forallb_Forall _ _ _ _ (uniform_b_ok _ _ _) H14).
Qed.
End WithOps.

(* the same with C04's extra condition (a parameter written as DATA_START is named DATA_START): the second generation *)
Definition ls4_ok_b f_key f_tosize f_div (s : state) : bool :=
  ls_ok_b f_key f_tosize f_div s && (ps_start (pro s) =? 1) && ds_stable_b (groups s).

Theorem ls4_ok_second_generation : forall f_key f_tosize f_div s, ls4_ok_b f_key f_tosize f_div s = true ->
  exists bytes s1, save s = Ok bytes /\ load f_key f_tosize f_div bytes = Ok s1 /\ save s1 = Ok bytes.
Proof.
  intros f_key f_tosize f_div s H. unfold ls4_ok_b in H. apply andb_prop in H. destruct H as [H H3]. apply andb_prop in H. destruct H as [H1 H2].
  destruct (ls_ok_load_save f_key f_tosize f_div s H1) as (bytes & blocks & pn & an & _ & Sv & Ld).
  exists bytes, (reloaded s blocks pn an). split; [exact Sv|]. split; [exact Ld|].
  rewrite (save_reloaded s blocks pn an); [exact Sv|lia|exact (ds_stable_of_b _ H3)].
Qed.
