(* Proofs_Param.v — parameter and group edits change exactly what was asked (C09). *)
From Coq Require Import Lia.
From EZ Require Import Base Types Api Proofs_Lookup Proofs_Monad.
Local Open Scope N_scope.

(* ---------- Parameter::set ---------- *)
(* the documented acceptance rule *)
Definition shape_ok (n : N) (dims : list N) : Prop :=
  (n <> 0 /\ n = prodN dims) \/ (n = 0 /\ (dims = [] \/ prodN dims = 0)).

Lemma wrap32s_zero_small : forall z, (0 <= z < 2147483648)%Z -> (wrap32s z = 0)%Z <-> z = 0%Z.
Proof.
  intros z H. unfold wrap32s. rewrite Z.mod_small by lia.
  destruct (z <? 2147483648)%Z eqn:E; [tauto|]. apply Z.ltb_ge in E. lia.
Qed.

(* within the range of the C++ types (product below 2^31) the code's test IS the documented rule *)
Lemma dim_consistent_spec : forall n dims, prodN dims < 2147483648 ->
  dim_consistent n dims = true <-> shape_ok n dims.
Proof.
  intros n dims Hp. unfold dim_consistent, shape_ok.
  destruct (n =? 0) eqn:E0.
  - apply N.eqb_eq in E0. subst n. destruct dims as [|d t].
    + split; [intros _; right; auto|reflexivity].
    + rewrite Z.eqb_eq, wrap32s_zero_small by lia. split.
      * intros H. right. split; [reflexivity|right; lia].
      * intros [[H _]|[_ [H|H]]]; [congruence|discriminate|lia].
  - apply N.eqb_neq in E0. rewrite N.eqb_eq. unfold wrap64, two64.
    rewrite N.mod_small by lia. split.
    + intros H. left. auto.
    + intros [[_ H]|[H _]]; [exact H|congruence].
Qed.

(* outside that range the int product wraps: empty data is accepted for 65536 x 65536 *)
Lemma dim_consistent_wrap_refuted : dim_consistent 0 [65536; 65536] = true /\ ~ shape_ok 0 [65536; 65536].
Proof.
  split; [vm_compute; reflexivity|].
  unfold shape_ok. intros [[H _]|[_ [H|H]]]; [congruence|discriminate|vm_compute in H; discriminate].
Qed.

Definition same_meta (p q : param) : Prop := p_name q = p_name p /\ p_desc q = p_desc p /\ p_lock q = p_lock p.

Lemma set_ints_spec : forall p data dims,
  (dim_consistent (nlen data) (dims_or_len dims (nlen data)) = true ->
     exists q, set_ints p data dims = Ok q /\ p_type q = TInt /\ p_ints q = data /\
               p_dims q = dims_or_len dims (nlen data) /\ same_meta p q) /\
  (dim_consistent (nlen data) (dims_or_len dims (nlen data)) = false -> set_ints p data dims = Throw RangeError).
Proof.
  intros p data dims. unfold set_ints. split; intros H; rewrite H; [|reflexivity].
  eexists. split; [reflexivity|]. unfold same_meta. simpl. repeat split.
Qed.
Lemma set_floats_spec : forall p data dims,
  (dim_consistent (nlen data) (dims_or_len dims (nlen data)) = true ->
     exists q, set_floats p data dims = Ok q /\ p_type q = TFloat /\ p_floats q = data /\
               p_dims q = dims_or_len dims (nlen data) /\ same_meta p q) /\
  (dim_consistent (nlen data) (dims_or_len dims (nlen data)) = false -> set_floats p data dims = Throw RangeError).
Proof.
  intros p data dims. unfold set_floats. split; intros H; rewrite H; [|reflexivity].
  eexists. split; [reflexivity|]. unfold same_meta. simpl. repeat split.
Qed.
(* strings gain a leading dimension equal to the longest string *)
Lemma set_strs_spec : forall p data dims,
  (dim_consistent (nlen data) (dims_or_len dims (nlen data)) = true ->
     exists q, set_strs p data dims = Ok q /\ p_type q = TChar /\ p_strs q = data /\
               p_dims q = maxlen data :: dims_or_len dims (nlen data) /\ same_meta p q) /\
  (dim_consistent (nlen data) (dims_or_len dims (nlen data)) = false -> set_strs p data dims = Throw RangeError).
Proof.
  intros p data dims. unfold set_strs. split; intros H; rewrite H; [|reflexivity].
  eexists. split; [reflexivity|]. unfold same_meta. simpl. repeat split.
Qed.

Lemma maxlen_spec : forall l, (forall s, In s l -> nlen s <= maxlen l) /\ (l <> [] -> exists s, In s l /\ nlen s = maxlen l).
Proof.
  induction l as [|a l [IH1 IH2]]; simpl; split.
  - intros s [].
  - intros H; congruence.
  - intros s [H|H]; [subst; lia|specialize (IH1 s H); lia].
  - intros _. destruct l as [|b l'].
    + exists a. split; [left; reflexivity|simpl; lia].
    + destruct IH2 as [s [Hs Hl]]; [discriminate|].
      destruct (N.max_spec (nlen a) (maxlen (b :: l'))) as [[Hlt E]|[Hge E]]; rewrite E.
      * exists s. split; [right; exact Hs|exact Hl].
      * exists a. split; [left; reflexivity|reflexivity].
Qed.

(* ---------- replace-or-append in a list keyed by name ---------- *)
Section Keyed.
Variable A : Type.
Variable key : A -> bstr.

Definition upsert (l : list A) (x : A) : list A :=
  match find_idx (fun y => bstr_eqb (key y) (key x)) l 0 with
  | Some i => replace_nth (N.to_nat i) x l
  | None => l ++ [x]
  end.

Lemma replace_nth_length : forall (l : list A) n x, length (replace_nth n x l) = length l.
Proof. induction l as [|a l IH]; intros [|n] x; simpl; auto. Qed.

Lemma replace_nth_same : forall (l : list A) n x, (n < length l)%nat -> nth_error (replace_nth n x l) n = Some x.
Proof. induction l as [|a l IH]; intros [|n] x H; simpl in *; try lia; auto. apply IH. lia. Qed.

Lemma replace_nth_other : forall (l : list A) n m x, n <> m -> nth_error (replace_nth n x l) m = nth_error l m.
Proof. induction l as [|a l IH]; intros [|n] [|m] x H; simpl; auto; try congruence. Qed.

Lemma find_idx_add : forall (p : A -> bool) l k m,
  find_idx p l (k + m) = option_map (fun i => i + m) (find_idx p l k).
Proof.
  intros p l. induction l as [|a l IH]; intros k m; cbn [find_idx]; [reflexivity|].
  destruct (p a); [reflexivity|].
  replace (k + m + 1) with ((k + 1) + m) by lia. apply IH.
Qed.
Lemma find_idx_shift : forall (p : A -> bool) l k, find_idx p l k = option_map (fun i => i + k) (find_idx p l 0).
Proof. intros p l k. rewrite <- (find_idx_add p l 0 k). reflexivity. Qed.
Lemma find_idx_1 : forall (p : A -> bool) l, find_idx p l 1 = option_map (fun i => i + 1) (find_idx p l 0).
Proof. intros p l. apply find_idx_shift. Qed.

(* searching a list in which position i (the first match of key x) was replaced by x *)
Lemma find_after_replace : forall l x i n,
  find_idx (fun y => bstr_eqb (key y) (key x)) l 0 = Some i ->
  find_idx (fun y => bstr_eqb (key y) n) (replace_nth (N.to_nat i) x l) 0 =
    if bstr_eqb (key x) n then Some i else find_idx (fun y => bstr_eqb (key y) n) l 0.
Proof.
  induction l as [|a l IH]; intros x i n H; cbn [find_idx] in H; [discriminate|].
  change (0 + 1) with 1 in H.
  destruct (bstr_eqb (key a) (key x)) eqn:Ea.
  - inversion H; subst i. cbn [N.to_nat replace_nth find_idx]. apply bstr_eqb_eq in Ea.
    destruct (bstr_eqb (key x) n) eqn:Ex; [reflexivity|].
    rewrite Ea, Ex. reflexivity.
  - rewrite find_idx_1 in H. destruct (find_idx _ l 0) as [j|] eqn:F; [|discriminate].
    cbn [option_map] in H. inversion H; subst i.
    replace (N.to_nat (j + 1)) with (Datatypes.S (N.to_nat j)) by lia. cbn [replace_nth find_idx].
    change (0 + 1) with 1.
    destruct (bstr_eqb (key a) n) eqn:Ean.
    + destruct (bstr_eqb (key x) n) eqn:Ex; [|reflexivity].
      apply bstr_eqb_eq in Ean. apply bstr_eqb_eq in Ex.
      assert (Hk : key a = key x) by congruence. apply bstr_eqb_eq in Hk. congruence.
    + rewrite (find_idx_1 _ (replace_nth _ _ _)), (find_idx_1 _ l).
      rewrite (IH x j n F). destruct (bstr_eqb (key x) n); cbn [option_map]; reflexivity.
Qed.

Lemma find_after_append : forall l x n,
  find_idx (fun y => bstr_eqb (key y) (key x)) l 0 = None ->
  find_idx (fun y => bstr_eqb (key y) n) (l ++ [x]) 0 =
    match find_idx (fun y => bstr_eqb (key y) n) l 0 with
    | Some j => Some j
    | None => if bstr_eqb (key x) n then Some (nlen l) else None
    end.
Proof.
  induction l as [|a l IH]; intros x n H; cbn [find_idx app] in *.
  - destruct (bstr_eqb (key x) n); reflexivity.
  - change (0 + 1) with 1 in *.
    destruct (bstr_eqb (key a) (key x)) eqn:Ea; [discriminate|].
    rewrite find_idx_1 in H. destruct (find_idx _ l 0) eqn:F; [discriminate|].
    destruct (bstr_eqb (key a) n); [reflexivity|].
    rewrite (find_idx_1 _ (l ++ [x])), (find_idx_1 _ l), (IH x n F).
    destruct (find_idx (fun y => bstr_eqb (key y) n) l 0); cbn [option_map]; [reflexivity|].
    destruct (bstr_eqb (key x) n); cbn [option_map]; [f_equal; unfold nlen; cbn [length]; lia|reflexivity].
Qed.

(* keys keep their positions: same key sequence, or one more at the end *)
Lemma upsert_keys : forall l x,
  map key (upsert l x) = map key l \/ map key (upsert l x) = map key l ++ [key x].
Proof.
  intros l x. unfold upsert. destruct (find_idx _ l 0) as [i|] eqn:F.
  - left. apply find_idx_some in F. destruct F as [_ [y [Hn [Py _]]]]. rewrite N.sub_0_r in Hn.
    apply bstr_eqb_eq in Py. revert Hn. generalize (N.to_nat i). clear i.
    induction l as [|a l IH]; intros [|n] Hn; simpl in *; try discriminate.
    + inversion Hn; subst. f_equal. auto.
    + f_equal. apply IH, Hn.
  - right. rewrite map_app. reflexivity.
Qed.

(* every element other than the one with x's key is untouched, at the same position *)
Lemma upsert_others : forall l x j y, nth_error l j = Some y -> key y <> key x -> nth_error (upsert l x) j = Some y.
Proof.
  intros l x j y Hj Hk. unfold upsert. destruct (find_idx _ l 0) as [i|] eqn:F.
  - destruct (Nat.eq_dec (N.to_nat i) j) as [E|E].
    + exfalso. apply find_idx_some in F. destruct F as [_ [z [Hn [Pz _]]]]. rewrite N.sub_0_r in Hn.
      rewrite E in Hn. rewrite Hj in Hn. inversion Hn; subst. apply bstr_eqb_eq in Pz. contradiction.
    + rewrite replace_nth_other; auto.
  - rewrite nth_error_app1; [exact Hj|]. apply nth_error_Some. congruence.
Qed.
End Keyed.

Lemma group_set_param_is_upsert : forall g p, p_type p <> TNone ->
  group_set_param g p = Ok (g_set_params g (upsert param p_name (g_params g) p)).
Proof.
  intros g p H. unfold group_set_param, upsert.
  destruct (p_type p); try congruence; destruct (find_idx _ (g_params g) 0); reflexivity.
Qed.
Lemma group_set_param_none : forall g p, p_type p = TNone -> group_set_param g p = Throw RuntimeError.
Proof. intros g p H. unfold group_set_param. rewrite H. reflexivity. Qed.

(* afterwards looking the parameter up returns exactly what was given *)
Lemma lookup_after_upsert : forall g p, p_type p <> TNone ->
  param_named (g_set_params g (upsert param p_name (g_params g) p)) (p_name p) = Ok p.
Proof.
  intros g p _. unfold param_named, param_idx, upsert. simpl.
  destruct (find_idx (fun y => bstr_eqb (p_name y) (p_name p)) (g_params g) 0) as [i|] eqn:F.
  - rewrite (find_after_replace param p_name _ p i (p_name p) F).
    assert (E : bstr_eqb (p_name p) (p_name p) = true) by (apply bstr_eqb_eq; reflexivity).
    rewrite E. simpl. unfold param_at. simpl. apply at_ok.
    pose proof (find_idx_bound _ _ _ _ _ F) as B.
    unfold nlen in *. rewrite replace_nth_length. split; [lia|]. apply replace_nth_same. lia.
  - rewrite (find_after_append param p_name _ p (p_name p) F).
    assert (E : bstr_eqb (p_name p) (p_name p) = true) by (apply bstr_eqb_eq; reflexivity).
    assert (F2 : find_idx (fun y => bstr_eqb (p_name y) (p_name p)) (g_params g) 0 = None) by exact F.
    rewrite F2, E. simpl. unfold param_at. simpl. apply at_ok. unfold nlen. rewrite app_length. simpl.
    split; [lia|]. rewrite Nat2N.id. rewrite nth_error_app2 by lia. rewrite Nat.sub_diag. reflexivity.
Qed.

(* every other name looks up as before *)
Lemma lookup_other_after_upsert : forall g p n, n <> p_name p ->
  param_named (g_set_params g (upsert param p_name (g_params g) p)) n = param_named g n.
Proof.
  intros g p n Hn. unfold param_named, param_idx, upsert. simpl.
  assert (Ex : bstr_eqb (p_name p) n = false).
  { destruct (bstr_eqb (p_name p) n) eqn:E; [apply bstr_eqb_eq in E; congruence|reflexivity]. }
  destruct (find_idx (fun y => bstr_eqb (p_name y) (p_name p)) (g_params g) 0) as [i|] eqn:F.
  - rewrite (find_after_replace param p_name _ p i n F), Ex.
    destruct (find_idx (fun y => bstr_eqb (p_name y) n) (g_params g) 0) as [j|] eqn:Fj; [|reflexivity].
    simpl. unfold param_at. simpl.
    pose proof (find_idx_bound _ _ _ _ _ Fj) as B.
    apply find_idx_some in Fj. destruct Fj as [_ [y [Hy [Py _]]]]. rewrite N.sub_0_r in Hy.
    apply bstr_eqb_eq in Py.
    assert (Hij : N.to_nat i <> N.to_nat j).
    { intros E. apply find_idx_some in F. destruct F as [_ [z [Hz [Pz _]]]]. rewrite N.sub_0_r in Hz.
      rewrite E, Hy in Hz. inversion Hz; subst. apply bstr_eqb_eq in Pz. congruence. }
    transitivity (Ok y); [|symmetry]; apply at_ok; unfold nlen in *; rewrite ?replace_nth_length;
      (split; [lia|]); [rewrite replace_nth_other; auto|exact Hy].
  - rewrite (find_after_append param p_name _ p n F), Ex.
    destruct (find_idx (fun y => bstr_eqb (p_name y) n) (g_params g) 0) as [j|] eqn:Fj; [|reflexivity].
    simpl. unfold param_at. simpl.
    pose proof (find_idx_bound _ _ _ _ _ Fj) as B.
    apply find_idx_some in Fj. destruct Fj as [_ [y [Hy _]]]. rewrite N.sub_0_r in Hy.
    transitivity (Ok y); [|symmetry]; apply at_ok; unfold nlen in *; rewrite ?app_length;
      (split; [simpl; lia|]); [rewrite nth_error_app1 by lia; exact Hy|exact Hy].
Qed.

(* ---------- the header updater does not touch the parameter tree nor the frames ---------- *)
Definition same_tree (s s' : state) : Prop := groups s' = groups s /\ frames s' = frames s /\ pro s' = pro s.
Lemma same_tree_refl : forall s, same_tree s s.
Proof. intros s. unfold same_tree. auto. Qed.
Lemma same_tree_trans : forall a b c, same_tree a b -> same_tree b c -> same_tree a c.
Proof. unfold same_tree. intros a b c [H1 [H2 H3]] [H4 [H5 H6]]. repeat split; congruence. Qed.

Notation keepsT m := (keeps same_tree m).

Lemma keeps_mod_hdr : forall f, keepsT (mod_hdr f).
Proof. intros f s. simpl. unfold same_tree, set_hdr. simpl. auto. Qed.

Ltac kstep :=
  match goal with
  | |- keeps _ (bind _ _) => apply (keeps_bind _ _ same_tree_trans); [|intros ?]
  | |- keeps _ (ret _) => apply (keeps_ret _ _ same_tree_refl)
  | |- keeps _ (throw _) => apply (keeps_throw _ _ same_tree_refl)
  | |- keeps _ (ub _) => apply keeps_ub
  | |- keeps _ (lift _) => apply (keeps_lift _ _ same_tree_refl)
  | |- keeps _ getS => apply (keeps_getS _ _ same_tree_refl)
  | |- keeps _ (mod_hdr _) => apply keeps_mod_hdr
  | |- keeps _ (when ?b _) => unfold when; destruct b
  | |- keeps _ (if ?b then _ else _) => destruct b
  | |- keeps _ (match ?x with _ => _ end) => destruct x
  end.

Section WithOps.
Variable f_key : f32 -> outcome Z.
Variable f_tosize : f32 -> outcome N.
Variable f_div : f32 -> f32 -> f32.
Variable f_is_zero : f32 -> bool.

Lemma keeps_get_group : forall n, keepsT (get_group n).
Proof. intros n. unfold get_group. repeat kstep. Qed.
Lemma keeps_get_param : forall g n, keepsT (get_param g n).
Proof. intros g n. unfold get_param. kstep; [apply keeps_get_group|]. repeat kstep. Qed.
Lemma keeps_int0 : forall k g n, keepsT (int0 k g n).
Proof. intros k g n. unfold int0. kstep; [apply keeps_get_param|]. repeat kstep. Qed.
Lemma keeps_float0 : forall k g n, keepsT (float0 k g n).
Proof. intros k g n. unfold float0. kstep; [apply keeps_get_param|]. repeat kstep. Qed.

Ltac kstep2 :=
  first [ apply keeps_int0 | apply keeps_float0 | apply keeps_get_group | apply keeps_get_param | kstep ].

Lemma keeps_update_header : forall b, keepsT (update_header f_key f_tosize f_div b).
Proof. intros b. unfold update_header, uh_rate_points, uh_analogs, uh_frames, byframe_step, analog_rate_step. repeat kstep2. Qed.

(* ---------- c3d::parameter ---------- *)
Definition lookup (gs : list group) (g n : bstr) : outcome param :=
  obind (group_named gs g) (fun gr => param_named gr n).

(* the tree the call must produce, written without reference to the code *)
Definition tree_after (gs : list group) (gname : bstr) (p : param) : list group :=
  match find_idx (fun g => bstr_eqb (g_name g) gname) gs 0 with
  | Some i => match nth_error gs (N.to_nat i) with
              | Some g => replace_nth (N.to_nat i) (g_set_params g (upsert param p_name (g_params g) p)) gs
              | None => gs
              end
  | None => gs ++ [mkGroup gname [] false [p]]
  end.

Ltac binv H := let a := fresh "a" in let s1 := fresh "s" in let H1 := fresh "Hb" in
  apply bind_ok in H; destruct H as [a [s1 [H1 H]]].

Lemma find_last_none : forall (q : group -> bool) l k acc,
  find_idx q l k = None -> find_last_idx q l k acc = acc.
Proof.
  induction l as [|a l IH]; intros k acc Hf; cbn [find_idx find_last_idx] in *; [reflexivity|].
  destruct (q a); [discriminate|]. apply IH, Hf.
Qed.

Lemma replace_last : forall (l : list group) x y, replace_nth (length l) y (l ++ [x]) = l ++ [y].
Proof. induction l as [|a l IH]; intros x y; simpl; [reflexivity|]. f_equal. apply IH. Qed.

Lemma api_parameter_tree : forall gname p s s',
  api_parameter f_key f_tosize f_div gname p s = ROk tt s' ->
  groups s' = tree_after (groups s) gname p /\ frames s' = frames s /\ pro s' = pro s /\
  p_name p <> [] /\ p_type p <> TNone.
Proof.
  intros gname p s s' H. unfold api_parameter in H.
  binv H. destruct (bstr_eqb (p_name p) []) eqn:En; [discriminate|].
  cbv [ret] in Hb. injection Hb as _ <-.
  binv H.
  assert (Ht : p_type p <> TNone /\ s0 = s).
  { destruct (p_type p); cbv [ret throw] in Hb; inversion Hb; split; congruence. }
  destruct Ht as [Ht ->]. clear Hb.
  binv H. cbv [getS] in Hb. injection Hb as <- <-.
  binv H. rename a1 into gi. rename s0 into s4. rename Hb into H4.
  binv H. cbv [getS] in Hb. injection Hb as <- <-.
  binv H. apply lift_ok in Hb. destruct Hb as [Hg ->]. rename a1 into g.
  binv H. apply lift_ok in Hb. destruct Hb as [Hg' ->]. rename a1 into g'.
  binv H. cbv [putS] in Hb. injection Hb as _ <-.
  pose proof (keeps_update_header true (set_groups s4 (replace_nth (N.to_nat gi) g' (groups s4)))) as K.
  rewrite H in K. destruct K as [K1 [K2 K3]]. cbn [set_groups groups frames pro] in K1, K2, K3.
  rewrite (group_set_param_is_upsert g p Ht) in Hg'. injection Hg' as <-.
  assert (Nn : p_name p <> []).
  { intros E. rewrite E in En. simpl in En. discriminate. }
  unfold catch in H4. unfold group_idx in H4 at 1. unfold tree_after.
  destruct (find_idx (fun g0 => bstr_eqb (g_name g0) gname) (groups s) 0) as [i|] eqn:F.
  - cbv [lift] in H4. injection H4 as <- <-.
    unfold group_at in Hg. apply at_ok in Hg. destruct Hg as [_ Hg]. rewrite Hg.
    repeat split; auto.
  - cbv [lift] in H4. unfold groups_add in H4. cbn [new_group g_name] in H4.
    rewrite (find_last_none _ _ _ _ F) in H4.
    cbv [bind lift putS] in H4. unfold group_idx in H4.
    rewrite (find_after_append group g_name (groups s) (new_group gname []) gname) in H4 by exact F.
    rewrite F in H4. cbn [new_group g_name] in H4.
    assert (E : bstr_eqb gname gname = true) by (apply bstr_eqb_eq; reflexivity).
    rewrite E in H4. injection H4 as <- <-.
    cbn [set_groups groups frames pro] in *. unfold group_at in Hg. apply at_ok in Hg. destruct Hg as [_ Hg].
    unfold nlen in Hg. rewrite Nat2N.id in Hg. rewrite nth_error_app2 in Hg by lia.
    rewrite Nat.sub_diag in Hg. cbn [nth_error] in Hg. injection Hg as <-.
    unfold nlen in K1. rewrite Nat2N.id in K1.
    rewrite replace_last in K1. cbn [new_group g_params g_set_params upsert find_idx app g_name g_desc g_lock] in K1.
    repeat split; auto.
Qed.

(* ---- consequences, in terms of look-ups ---- *)
Lemma param_named_ext : forall g1 g2 n, g_params g1 = g_params g2 -> param_named g1 n = param_named g2 n.
Proof. intros g1 g2 n H. unfold param_named, param_idx, param_at. rewrite H. reflexivity. Qed.

Lemma group_named_after : forall gs gname p,
  exists gr, group_named (tree_after gs gname p) gname = Ok gr /\
             g_name gr = gname /\
             g_params gr = match group_named gs gname with
                           | Ok g0 => upsert param p_name (g_params g0) p
                           | _ => [p]
                           end /\
             match group_named gs gname with
             | Ok g0 => g_desc gr = g_desc g0 /\ g_lock gr = g_lock g0
             | _ => g_desc gr = [] /\ g_lock gr = false
             end.
Proof.
  intros gs gname p. unfold tree_after, group_named, group_idx.
  destruct (find_idx (fun g => bstr_eqb (g_name g) gname) gs 0) as [i|] eqn:F.
  - pose proof (find_idx_bound _ _ _ _ _ F) as B.
    pose proof (find_idx_some _ _ _ _ _ F) as [_ [g0 [Hn [Pg _]]]]. rewrite N.sub_0_r in Hn.
    rewrite Hn. apply bstr_eqb_eq in Pg.
    set (g1 := g_set_params g0 (upsert param p_name (g_params g0) p)).
    assert (F' : find_idx (fun y => bstr_eqb (g_name y) (g_name g1)) gs 0 = Some i) by (cbn [g1 g_set_params g_name]; rewrite Pg; exact F).
    rewrite (find_after_replace group g_name gs g1 i gname F').
    assert (E : bstr_eqb (g_name g1) gname = true) by (apply bstr_eqb_eq; exact Pg).
    rewrite E. cbn [obind]. unfold group_at.
    assert (A1 : at_ (replace_nth (N.to_nat i) g1 gs) i = Ok g1).
    { apply at_ok. unfold nlen in *. rewrite replace_nth_length. split; [lia|]. apply replace_nth_same. lia. }
    assert (A0 : at_ gs i = Ok g0) by (apply at_ok; split; [lia|exact Hn]).
    rewrite A1, A0. exists g1. cbn [g1 g_set_params g_name g_params g_desc g_lock]. auto.
  - rewrite (find_after_append group g_name gs (mkGroup gname [] false [p]) gname) by exact F.
    rewrite F. cbn [g_name].
    assert (E : bstr_eqb gname gname = true) by (apply bstr_eqb_eq; reflexivity).
    rewrite E. cbn [obind]. unfold group_at.
    assert (A1 : at_ (gs ++ [mkGroup gname [] false [p]]) (nlen gs) = Ok (mkGroup gname [] false [p])).
    { apply at_ok. unfold nlen. rewrite app_length, Nat2N.id. cbn [length]. split; [lia|].
      rewrite nth_error_app2 by lia. rewrite Nat.sub_diag. reflexivity. }
    rewrite A1. eexists. split; [reflexivity|]. cbn. auto.
Qed.

(* looking the parameter up afterwards returns what was given: type, dimensions, values, description, lock *)
Lemma lookup_after : forall gs gname p, p_type p <> TNone -> lookup (tree_after gs gname p) gname (p_name p) = Ok p.
Proof.
  intros gs gname p Ht. unfold lookup.
  destruct (group_named_after gs gname p) as [gr [H1 [_ [H3 _]]]]. rewrite H1. cbn [obind].
  destruct (group_named gs gname) as [g0| |].
  - rewrite (param_named_ext gr (g_set_params g0 (upsert param p_name (g_params g0) p))) by exact H3.
    apply lookup_after_upsert, Ht.
  - rewrite (param_named_ext gr (g_set_params (new_group [] []) (upsert param p_name (g_params (new_group [] [])) p))) by exact H3.
    apply lookup_after_upsert, Ht.
  - rewrite (param_named_ext gr (g_set_params (new_group [] []) (upsert param p_name (g_params (new_group [] [])) p))) by exact H3.
    apply lookup_after_upsert, Ht.
Qed.

(* every group other than the target sits at the same position, unchanged *)
Lemma other_groups_unchanged : forall gs gname p j gr,
  nth_error gs j = Some gr -> g_name gr <> gname -> nth_error (tree_after gs gname p) j = Some gr.
Proof.
  intros gs gname p j gr Hj Hn. unfold tree_after.
  destruct (find_idx (fun g => bstr_eqb (g_name g) gname) gs 0) as [i|] eqn:F.
  - pose proof (find_idx_some _ _ _ _ _ F) as [_ [g0 [Hi [Pg _]]]]. rewrite N.sub_0_r in Hi. rewrite Hi.
    destruct (Nat.eq_dec (N.to_nat i) j) as [E|E].
    + subst j. rewrite Hi in Hj. injection Hj as <-. apply bstr_eqb_eq in Pg. contradiction.
    + rewrite replace_nth_other; auto.
  - rewrite nth_error_app1; [exact Hj|]. apply nth_error_Some. congruence.
Qed.

(* group names keep their positions; at most one new group, at the end *)
Lemma group_names_after : forall gs gname p,
  map g_name (tree_after gs gname p) = map g_name gs \/ map g_name (tree_after gs gname p) = map g_name gs ++ [gname].
Proof.
  intros gs gname p. unfold tree_after.
  destruct (find_idx (fun g => bstr_eqb (g_name g) gname) gs 0) as [i|] eqn:F.
  - left. pose proof (find_idx_some _ _ _ _ _ F) as [_ [g0 [Hi _]]]. rewrite N.sub_0_r in Hi. rewrite Hi.
    revert Hi. generalize (N.to_nat i). clear F i.
    induction gs as [|a l IH]; intros [|n] Hn; cbn in *; try discriminate.
    + injection Hn as <-. reflexivity.
    + f_equal. apply IH, Hn.
  - right. rewrite map_app. reflexivity.
Qed.

(* within the target group every other parameter name looks up as before *)
Lemma lookup_other_param : forall gs gname p n, n <> p_name p ->
  lookup (tree_after gs gname p) gname n =
    match group_named gs gname with Ok _ => lookup gs gname n | _ => Throw InvalidArgument end.
Proof.
  intros gs gname p n Hn. unfold lookup.
  destruct (group_named_after gs gname p) as [gr [H1 [_ [H3 _]]]]. rewrite H1. cbn [obind].
  destruct (group_named gs gname) as [g0| |]; cbn [obind].
  - rewrite (param_named_ext gr (g_set_params g0 (upsert param p_name (g_params g0) p))) by exact H3.
    apply lookup_other_after_upsert, Hn.
  - rewrite (param_named_ext gr (g_set_params (new_group [] []) (upsert param p_name (g_params (new_group [] [])) p))) by exact H3.
    rewrite lookup_other_after_upsert by exact Hn. reflexivity.
  - rewrite (param_named_ext gr (g_set_params (new_group [] []) (upsert param p_name (g_params (new_group [] [])) p))) by exact H3.
    rewrite lookup_other_after_upsert by exact Hn. reflexivity.
Qed.

(* ---------- lock / unlock ---------- *)
Lemma api_lock_spec : forall gname b s s', api_lock gname b s = ROk tt s' ->
  hdr s' = hdr s /\ frames s' = frames s /\ pro s' = pro s /\
  exists i g, group_idx (groups s) gname = Ok i /\ nth_error (groups s) (N.to_nat i) = Some g /\
              groups s' = replace_nth (N.to_nat i) (g_set_lock g b) (groups s).
Proof.
  intros gname b s s' H. unfold api_lock in H.
  binv H. cbv [getS] in Hb. injection Hb as <- <-.
  binv H. apply lift_ok in Hb. destruct Hb as [Hi ->].
  binv H. apply lift_ok in Hb. destruct Hb as [Hg ->].
  cbv [putS] in H. injection H as <-. cbn. repeat split; auto.
  exists a, a0. unfold group_at in Hg. apply at_ok in Hg. destruct Hg as [_ Hg]. auto.
Qed.
Lemma api_lock_unknown : forall gname b s, group_idx (groups s) gname = Throw InvalidArgument ->
  api_lock gname b s = RThrow InvalidArgument s.
Proof. intros gname b s H. unfold api_lock. cbv [bind getS lift]. rewrite H. reflexivity. Qed.

End WithOps.
