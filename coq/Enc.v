(* Enc.v — c3d::write as a pure function from the object to the bytes of the file
   (Header::write, Parameters::write, Group::write, Parameter::write, Data::write as of /repo HEAD).
   Back-patched values (next-offsets, block count, DATA_START, header data-start word) are computed. *)
From EZ Require Import Base Bytes Types Api.
Local Open Scope N_scope.

Definition low8 (z : Z) : N := Z.to_N (z mod 256).
Definition w2 (v : N) : list N := le_bytesN 2 v.
Definition w4 (v : N) : list N := le_bytesN 4 v.
Definition zlen {A} (l : list A) : Z := Z.of_nat (length l).

(* event label: a four-byte zero-padded copy *)
Definition label4 (s : bstr) : list N := firstn 4 (s ++ [0; 0; 0; 0]).

(* Header::write, with the data-start word patched by c3d::write once the parameters are written *)
Definition header_bytes (h : header) (dstart : N) : list N :=
  [2; 80]
  ++ w2 (h_points h) ++ w2 (h_meas h)
  ++ w2 (wrap64 (h_first h + 1)) ++ w2 (wrap64 (h_last h + 1))
  ++ w2 (h_gap h)
  ++ le_bytes 4 (h_scale h)
  ++ w2 dstart
  ++ w2 (h_byframe h)
  ++ w4 (h_rate h)
  ++ concat (repeat (le_bytes 2 (h_e1 h)) 135)
  ++ w2 (h_keylab h) ++ w2 (h_keyblk h) ++ w2 (h_four h)
  ++ w2 (h_nev h) ++ le_bytes 2 (h_e2 h)
  ++ concat (map w4 (h_evtime h))
  ++ concat (map w2 (h_evdisp h))
  ++ le_bytes 2 (h_e3 h)
  ++ concat (map label4 (h_evlab h))
  ++ concat (repeat (le_bytes 2 (h_e4 h)) 22).

Definition type_byte (t : ptype) : N :=
  match t with TChar => 255 | TByte => 1 | TInt => 2 | TFloat => 4 | TNone => 16 end.

(* dimension bytes: [1] is stored as a scalar (count 0, no dimension byte) *)
Definition dims_bytes (dims : list N) : list N :=
  match dims with
  | [1] => [0]
  | _ => low8 (zlen dims) :: map (fun d => low8 (Z.of_N d)) dims
  end.

(* int hasSize: 0 without dimensions, else the product in a 32-bit int *)
Definition has_size (dims : list N) : Z :=
  match dims with [] => 0%Z | _ => wrap32s (Z.of_N (prodN dims)) end.

Definition pad_to (w : N) (s : bstr) : list N := s ++ repeat 32 (N.to_nat (w - nlen s)).

Fixpoint take_cells {A} (site : nat) (n : nat) (l : list A) : outcome (list A) :=
  match n with
  | O => Ok []
  | S n' => match l with
            | [] => UB (IdxOOB site)
            | x :: t => obind (take_cells site n' t) (fun r => Ok (x :: r))
            end
  end.

(* the values of a parameter as written by writeImbricatedParameter; ds = true for the DATA_START slot *)
Definition data_bytes (p : param) : outcome (list N * bool) :=
  if (has_size (p_dims p) <=? 0)%Z then Ok ([], false) else
  match p_type p with
  | TChar =>
      match p_dims p with
      | [w] => match p_strs p with
               | s0 :: _ => Ok (pad_to w s0, false)
               | [] => UB (IdxOOB 50)
               end
      | w :: rest =>
          if nlen (p_strs p) <? prodN rest then UB (IdxOOB 51)
          else obind (take_cells 51 (N.to_nat (prodN rest)) (p_strs p)) (fun cells =>
               Ok (concat (map (pad_to w) cells), false))
      | [] => Ok ([], false)
      end
  | ty =>
      if bstr_eqb (p_name p) nm_DATA_START then Ok ([0; 0], true)
      else
        let n := prodN (p_dims p) in
        match ty with
        | TFloat => if nlen (p_floats p) <? n then UB (IdxOOB 52)
                    else obind (take_cells 52 (N.to_nat n) (p_floats p)) (fun v => Ok (concat (map w4 v), false))
        | TInt => if nlen (p_ints p) <? n then UB (IdxOOB 53)
                  else obind (take_cells 53 (N.to_nat n) (p_ints p)) (fun v => Ok (concat (map (le_bytes 2) v), false))
        | TByte => if nlen (p_ints p) <? n then UB (IdxOOB 54)
                   else obind (take_cells 54 (N.to_nat n) (p_ints p)) (fun v => Ok (concat (map (le_bytes 1) v), false))
        | _ => Ok ([], false)     (* DATA_TYPE::NONE: no branch of the writer emits anything *)
        end
  end.

Definition name_len_byte (name : bstr) (lock : bool) : N :=
  low8 (if lock then (- zlen name)%Z else zlen name).

(* one parameter record; the second component is the offset, inside the record, of the DATA_START slot *)
Definition param_record (p : param) (gid : Z) : outcome (list N * option N) :=
  obind (data_bytes p) (fun '(data, ds) =>
  let head := [name_len_byte (p_name p) (p_lock p); low8 gid] ++ upper (p_name p) in
  let body := [type_byte (p_type p)] ++ dims_bytes (p_dims p) in
  let tail := data ++ [low8 (zlen (p_desc p))] ++ p_desc p in
  let off := (2 + zlen body + zlen tail)%Z in
  Ok (head ++ le_bytes 2 off ++ body ++ tail,
      if ds then Some (nlen head + 2 + nlen body) else None)).

Definition group_record (g : group) (gid : Z) : list N :=
  [name_len_byte (g_name g) (g_lock g); low8 (- gid)%Z] ++ upper (g_name g)
  ++ le_bytes 2 (3 + zlen (g_desc g))%Z ++ [low8 (zlen (g_desc g))] ++ g_desc g.

(* records of one group, appended to acc; dsp = absolute position of the (last) DATA_START slot *)
Fixpoint params_records (ps : list param) (gid : Z) (base : N) (acc : list N) (dsp : option N)
  : outcome (list N * option N) :=
  match ps with
  | [] => Ok (acc, dsp)
  | p :: t =>
      obind (param_record p gid) (fun '(bs, ds) =>
      let dsp' := match ds with Some o => Some (base + nlen acc + o) | None => dsp end in
      params_records t gid base (acc ++ bs) dsp')
  end.

Fixpoint groups_records (gs : list group) (gid : Z) (base : N) (acc : list N) (dsp : option N)
  : outcome (list N * option N) :=
  match gs with
  | [] => Ok (acc, dsp)
  | g :: t =>
      (* unused group ids of a source file are kept as nameless empty groups: not written *)
      if (match g_name g with [] => true | _ => false end) && (nlen (g_params g) =? 0)
      then groups_records t (gid + 1)%Z base acc dsp
      else
        obind (params_records (g_params g) gid base (acc ++ group_record g gid) dsp) (fun '(acc', dsp') =>
        groups_records t (gid + 1)%Z base acc' dsp')
  end.

Fixpoint patch_byte (l : list N) (pos : nat) (b : N) : list N :=
  match l, pos with
  | [], _ => []
  | _ :: t, O => b :: t
  | h :: t, S n => h :: patch_byte t n b
  end.

(* Parameters::write: prologue, records, zero padding to a block boundary (1..512 bytes: the first one
   is the end marker), block count, DATA_START = 1-based number of the first data block.
   Returns the section and the number of 512-byte blocks before the data. *)
Definition finish_section (recs : list N) (dsp : option N) : list N * N :=
  let p := 512 + nlen recs in
  let pad := 512 - p mod 512 in
  let sec := recs ++ repeat 0 (N.to_nat pad) in
  let endp := p + pad in
  let nblocks := endp / 512 - 1 in
  let sec1 := patch_byte sec 2 (low8 (Z.of_N nblocks)) in
  let sec2 := match dsp with
              | Some a => patch_byte sec1 (N.to_nat (a - 512)) (low8 (Z.of_N (endp / 512 + 1)))
              | None => sec1
              end in
  (sec2, endp / 512).

Definition section_bytes (pr : prologue) (gs : list group) : outcome (list N * N) :=
  let prologue4 := [low8 (Z.of_N (ps_start pr)); 80; 0; 84] in
  obind (groups_records gs 1%Z 512 prologue4 None) (fun '(recs, dsp) => Ok (finish_section recs dsp)).

Definition point_bytes (p : point) : list N := w4 (pt_x p) ++ w4 (pt_y p) ++ w4 (pt_z p) ++ w4 (pt_r p).
Definition frame_bytes (f : frame) : list N :=
  concat (map point_bytes (fr_pts f)) ++ concat (map (fun sf => concat (map (fun c => w4 (ch_v c)) sf)) (fr_subs f)).
Definition data_section (fs : list frame) : list N := concat (map frame_bytes fs).

(* c3d::write *)
Definition save (s : state) : outcome (list N) :=
  obind (section_bytes (pro s) (groups s)) (fun '(sec, blocks) =>
  Ok (header_bytes (hdr s) (blocks + 1) ++ sec ++ data_section (frames s))).
