(* Proofs_Inv.v — first layer of C05: the header's derived counts. *)
From Coq Require Import Lia.
From EZ Require Import Base Types Api Proofs_Param Spec_Inv.
Local Open Scope N_scope.
Ltac Zify.zify_post_hook ::= Z.div_mod_to_equations.

Lemma wrap64_small : forall n, n < two64 -> wrap64 n = n.
Proof. intros n H. unfold wrap64. apply N.mod_small. exact H. Qed.

(* Header::nbAnalogs(a): afterwards the header reports a channels and samples = channels x sub-frames *)
Lemma set_nb_analogs_spec : forall h a, h_byframe h <> 0 -> a * h_byframe h < two64 ->
  h_nb_analogs (h_set_nb_analogs h a) = a /\
  h_meas (h_set_nb_analogs h a) = a * h_byframe (h_set_nb_analogs h a) /\
  h_byframe (h_set_nb_analogs h a) = h_byframe h.
Proof.
  intros h a Hb Hw. unfold h_set_nb_analogs, h_nb_analogs, h_set_meas. cbn [h_byframe h_meas].
  rewrite wrap64_small by exact Hw.
  destruct (h_byframe h =? 0) eqn:E; [apply N.eqb_eq in E; contradiction|].
  repeat split. apply N.div_mul. exact Hb.
Qed.

(* Header::nbAnalogByFrame(n): keeps the channel count and rescales the samples per frame *)
Lemma set_byframe_spec : forall h n, n <> 0 -> h_nb_analogs h * n < two64 ->
  h_byframe (h_set_byframe h n) = n /\
  h_nb_analogs (h_set_byframe h n) = h_nb_analogs h /\
  h_meas (h_set_byframe h n) = h_nb_analogs h * n.
Proof.
  intros h n Hn Hw. unfold h_set_byframe.
  set (a := h_nb_analogs h) in *.
  assert (B : h_byframe (h_set_byframe_raw h n) = n) by reflexivity.
  destruct (set_nb_analogs_spec (h_set_byframe_raw h n) a) as [H1 [H2 H3]]; [rewrite B; exact Hn|rewrite B; exact Hw|].
  split; [rewrite H3; exact B|]. split; [exact H1|]. rewrite H2, H3, B. reflexivity.
Qed.

(* whatever the previous header, after the two setters the three analog counts agree *)
Lemma analog_counts_agree : forall h n a, n <> 0 -> h_nb_analogs h * n < two64 -> a * n < two64 ->
  let h' := h_set_nb_analogs (h_set_byframe h n) a in
  h_byframe h' = n /\ h_nb_analogs h' = a /\ h_meas h' = h_nb_analogs h' * h_byframe h'.
Proof.
  intros h n a Hn Hw1 Hw2 h'. destruct (set_byframe_spec h n Hn Hw1) as [B [_ _]].
  destruct (set_nb_analogs_spec (h_set_byframe h n) a) as [H1 [H2 H3]]; [rewrite B; exact Hn|rewrite B; exact Hw2|].
  unfold h'. split; [rewrite H3; exact B|]. split; [exact H1|]. rewrite H2, H1. reflexivity.
Qed.

(* frame range: the header reports F frames after firstFrame(0), lastFrame(F-1), provided it has points or channels *)
Lemma nb_frames_after_range : forall h F, F < two64 -> (h_points h <> 0 \/ h_nb_analogs h <> 0) ->
  h_nb_frames (h_set_first_last h 0 (sub64 F 1)) = F.
Proof.
  intros h F HF Hc. unfold h_nb_frames, h_set_first_last, h_nb_analogs in *. cbn [h_points h_byframe h_meas h_first h_last].
  assert (Z : ((h_points h =? 0) && ((if h_byframe h =? 0 then 0 else h_meas h / h_byframe h) =? 0)) = false).
  { destruct Hc as [Hc|Hc]; [apply N.eqb_neq in Hc; rewrite Hc; reflexivity|].
    apply N.eqb_neq in Hc. rewrite Hc. apply Bool.andb_false_r. }
  rewrite Z. unfold sub64, wrap64, two64 in *.
  destruct (N.eq_dec F 0) as [->|Hne].
  - vm_compute. reflexivity.
  - rewrite (N.mod_small 1) by lia.
    replace (F + 18446744073709551616 - 1) with ((F - 1) + 1 * 18446744073709551616) by lia.
    rewrite N.mod_add by lia. rewrite (N.mod_small (F - 1)) by lia.
    rewrite (N.mod_small 0) by lia.
    replace (F - 1 + 18446744073709551616 - 0) with ((F - 1) + 1 * 18446744073709551616) by lia.
    rewrite N.mod_add by lia. rewrite (N.mod_small (F - 1)) by lia.
    rewrite N.mod_small by lia. lia.
Qed.

(* ... and 0 when it has neither (the case the suite pins on a new object) *)
Lemma nb_frames_empty_shape : forall h, h_points h = 0 -> h_nb_analogs h = 0 -> h_nb_frames h = 0.
Proof. intros h H1 H2. unfold h_nb_frames. rewrite H1, H2. reflexivity. Qed.

Lemma inv_init : Inv init.
Proof. vm_compute. reflexivity. Qed.
