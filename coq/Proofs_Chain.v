(* Proofs_Chain.v — codec round trip, chain stage (C01/C02/C04): the record walker of
   Parameters::Parameters(file) on a sequence of well-formed records followed by the end marker
   rebuilds the tree record by record, and each "next record" pointer it follows is the position
   where the next record starts. *)
From Coq Require Import Lia ZifyNat ZifyN ZifyBool.
From EZ Require Import Base Bytes Types Api Enc Dec Proofs_Bytes Proofs_Lookup Proofs_Codec Proofs_Record.
Local Open Scope N_scope.

Ltac blia := unfold bstr, byte in *; lia.

Inductive item := IG (gid : Z) (g : group) | IP (gid : Z) (p : param).

Definition param_bytes (p : param) (gid : Z) : list N :=
  [name_len_byte (p_name p) (p_lock p); low8 gid] ++ upper (p_name p)
  ++ le_bytes 2 (2 + zlen (param_body p) + zlen (param_tail p))%Z ++ param_body p ++ param_tail p.
Definition item_bytes (it : item) : list N :=
  match it with IG gid g => group_record g gid | IP gid p => param_bytes p gid end.
Definition wf_item (it : item) : Prop :=
  match it with
  | IG gid g => (1 <= gid <= 127)%Z /\ wf_group_hdr g
  | IP gid p => (1 <= gid <= 127)%Z /\ wf_param p /\ (2 + zlen (param_body p) + zlen (param_tail p) < 65536)%Z
  end.

Definition slot (gid : Z) : nat := Z.to_nat (gid - 1).
Definition apply_item (it : item) (gs : list group) : outcome (list group) :=
  match it with
  | IG gid g =>
      let gs1 := grow_groups gs (Z.to_N gid) in
      match nth_error gs1 (slot gid) with
      | None => Throw OutOfRange
      | Some g0 => Ok (replace_nth (slot gid) (mkGroup (upper (g_name g)) (desc_after g g0) (g_lock g) (g_params g0)) gs1)
      end
  | IP gid p =>
      let gs1 := grow_groups gs (Z.to_N gid) in
      match nth_error gs1 (slot gid) with
      | None => Throw OutOfRange
      | Some g0 => obind (group_set_param g0 (upper_name p)) (fun g1 => Ok (replace_nth (slot gid) g1 gs1))
      end
  end.
Fixpoint apply_items (its : list item) (gs : list group) : outcome (list group) :=
  match its with [] => Ok gs | it :: t => obind (apply_item it gs) (apply_items t) end.

Definition items_len (its : list item) : nat := length (concat (map item_bytes its)).

Lemma wrap32s_id : forall z, (0 <= z < 2147483648)%Z -> wrap32s z = z.
Proof.
  intros z H. unfold wrap32s. rewrite Z.mod_small by lia.
  destruct (z <? 2147483648)%Z eqn:E; [reflexivity|apply Z.ltb_ge in E; lia].
Qed.

(* the first two bytes of a record: name length (signed: lock) and group id (signed: group or parameter) *)
Lemma read_two : forall b0 b1 st r, st_fail st = false -> st_rest st = b0 :: b1 :: r ->
  rd_int 1 st = Ok (hex2int [b0], adv st 1 (b1 :: r)) /\
  rd_int 1 (adv st 1 (b1 :: r)) = Ok (hex2int [b1], adv st 2 r).
Proof.
  intros b0 b1 st r Hf Hr. split.
  - apply (reads_int1 b0 st (b1 :: r) Hf Hr).
  - rewrite (reads_int1 b1 (adv st 1 (b1 :: r)) r (adv_fail _ _ _) (adv_rest _ _ _)). rewrite adv_adv. reflexivity.
Qed.

Lemma nchars_nonzero : forall n lock, (1 <= length n <= 127)%nat -> hex2int [name_len_byte n lock] <> 0%Z.
Proof. intros n lock H Z0. pose proof (nchars_of_name n lock H) as P. cbv zeta in P. destruct P as [E _]. rewrite Z0 in E. change (Z.to_nat (Z.abs 0)) with 0%nat in E. lia. Qed.

Lemma group_record_length : forall g gid, length (group_record g gid) = (length (g_name g) + length (g_desc g) + 5)%nat.
Proof. intros g gid. unfold group_record, upper. rewrite !app_length, map_length, le_bytes_length. cbn [length]. unfold bstr, byte in *. lia. Qed.
Lemma param_bytes_length : forall p gid, length (param_bytes p gid) = (length (p_name p) + 4 + length (param_body p ++ param_tail p))%nat.
Proof. intros p gid. unfold param_bytes, upper. rewrite !app_length, map_length, le_bytes_length. cbn [length]. unfold bstr, byte in *. lia. Qed.

Theorem walk_items : forall its fuel gs st r,
  Forall wf_item its -> (length its < fuel)%nat -> st_fail st = false -> 0 < st_pos st ->
  (Z.of_N (st_pos st) + Z.of_nat (items_len its) < 2147483648)%Z ->
  st_rest st = concat (map item_bytes its) ++ 0 :: r ->
  walk fuel (Z.of_N (st_pos st)) gs st =
    match apply_items its gs with
    | Ok gs' => Ok (gs', adv st (items_len its + 1) r)
    | Throw e => Throw e
    | UB t => UB t
    end.
Proof.
  induction its as [|it its IH]; intros fuel gs st r W Fu Hf Hp Hb Hr.
  - destruct fuel as [|f]; [cbn in Fu; blia|]. cbn [walk apply_items items_len map concat length Nat.add].
    assert (E0 : (Z.of_N (st_pos st) =? 0)%Z = false) by blia. rewrite E0.
    unfold rbind at 1. unfold rd_tell, tell. rewrite Hf. rewrite Z.eqb_refl. cbn [negb].
    unfold rbind at 1. cbn [app] in Hr. rewrite (reads_int1 0 st r Hf Hr). reflexivity.
  - destruct fuel as [|f]; [cbn in Fu; blia|].
    apply Forall_cons_iff in W. destruct W as [Wi W].
    cbn [map concat] in Hr. rewrite <- app_assoc in Hr.
    assert (Lb : items_len (it :: its) = (length (item_bytes it) + items_len its)%nat) by (unfold items_len; cbn [map concat]; apply app_length).
    cbn [walk apply_items].
    assert (E0 : (Z.of_N (st_pos st) =? 0)%Z = false) by blia. rewrite E0.
    unfold rbind at 1. unfold rd_tell, tell. rewrite Hf. rewrite Z.eqb_refl. cbn [negb].
    destruct it as [gid g|gid p].
    + (* a group record *)
      destruct Wi as [Hg Wg]. pose proof Wg as [[Hn _] [Hd _]].
      cbn [item_bytes] in Hr, Lb. unfold group_record in Hr. rewrite <- !app_assoc in Hr. cbn [app] in Hr.
      destruct (read_two _ _ st _ Hf Hr) as [R0 R1].
      unfold rbind at 1. rewrite R0.
      destruct (Z.eqb_spec (hex2int [name_len_byte (g_name g) (g_lock g)]) 0) as [Z0|_]; [exfalso; exact (nchars_nonzero _ _ Hn Z0)|].
      unfold rbind at 1. rewrite R1. rewrite (hex2int_low8 (- gid)) by blia.
      assert (En : (- gid <? 0)%Z = true) by blia. rewrite En.
      replace (Z.abs (- gid)) with gid by blia. cbn [apply_item]. fold (slot gid).
      destruct (nth_error (grow_groups gs (Z.to_N gid)) (slot gid)) as [g0|]; [|reflexivity].
      unfold rbind at 1.
      match goal with |- context [read_group g0 ?c (adv st 2 ?X)] =>
        pose proof (read_group_written g g0 (adv st 2 X) (concat (map item_bytes its) ++ 0 :: r) Wg (adv_fail _ _ _) eq_refl) as RG end.
      rewrite RG. clear RG.
      rewrite adv_adv. cbn [obind adv st_pos].
      rewrite group_record_length in Lb.
      set (n3 := (2 + (length (g_name g) + 2 + (1 + length (g_desc g))))%nat).
      assert (Hpos : wrap32s (Z.of_N (st_pos st + N.of_nat 2 + N.of_nat (length (g_name g)) + 2) + (3 + zlen (g_desc g)) - 2)
                     = Z.of_N (st_pos (adv st n3 (concat (map item_bytes its) ++ 0 :: r)))).
      { cbn [adv st_pos]. unfold n3, zlen. rewrite wrap32s_id by blia. blia. }
      rewrite Hpos.
      rewrite (IH f _ (adv st n3 _) r W); [| cbn in Fu; blia | apply adv_fail | cbn [adv st_pos]; blia | cbn [adv st_pos]; unfold n3; blia | apply adv_rest].
      destruct (apply_items its _) as [gs'| |]; try reflexivity.
      rewrite adv_adv. replace (n3 + (items_len its + 1))%nat with (items_len (IG gid g :: its) + 1)%nat by (unfold n3; blia). reflexivity.
    + (* a parameter record *)
      destruct Wi as [Hg [Wp Ho]]. pose proof Wp as [[Hn _] _].
      cbn [item_bytes] in Hr, Lb. unfold param_bytes in Hr. rewrite <- !app_assoc in Hr. cbn [app] in Hr.
      destruct (read_two _ _ st _ Hf Hr) as [R0 R1].
      unfold rbind at 1. rewrite R0.
      destruct (Z.eqb_spec (hex2int [name_len_byte (p_name p) (p_lock p)]) 0) as [Z0|_]; [exfalso; exact (nchars_nonzero _ _ Hn Z0)|].
      unfold rbind at 1. rewrite R1. rewrite (hex2int_low8 gid) by blia.
      assert (En : (gid <? 0)%Z = false) by blia. rewrite En.
      assert (Ez : (gid =? 0)%Z = false) by blia. rewrite Ez.
      replace (Z.abs gid) with gid by blia. cbn [apply_item]. fold (slot gid).
      destruct (nth_error (grow_groups gs (Z.to_N gid)) (slot gid)) as [g0|]; [|reflexivity].
      unfold rbind at 1.
      match goal with |- context [read_param ?c (adv st 2 ?X)] =>
        pose proof (read_param_written p (adv st 2 X) (concat (map item_bytes its) ++ 0 :: r) Wp (adv_fail _ _ _) eq_refl) as RP end.
      cbv zeta in RP. rewrite RP. clear RP.
      fold (upper_name p). rewrite adv_adv.
      unfold rbind at 1. unfold rlift.
      destruct (group_set_param g0 (upper_name p)) as [g1|e|t]; cbn [obind]; try reflexivity.
      rewrite param_bytes_length in Lb.
      assert (Eo : ((2 + zlen (param_body p) + zlen (param_tail p)) mod 65536)%Z = (2 + zlen (param_body p) + zlen (param_tail p))%Z)
        by (apply Z.mod_small; unfold zlen in *; blia). rewrite Eo.
      assert (Eo0 : ((2 + zlen (param_body p) + zlen (param_tail p)) =? 0)%Z = false) by (unfold zlen; blia). rewrite Eo0.
      set (off := (2 + zlen (param_body p) + zlen (param_tail p))%Z) in *.
      set (n3 := (2 + (length (p_name p) + 2 + length (param_body p ++ param_tail p)))%nat).
      cbn [adv st_pos].
      assert (Hpos : wrap32s (Z.of_N (st_pos st + N.of_nat 2 + N.of_nat (length (p_name p)) + 2) + off - 2)
                     = Z.of_N (st_pos (adv st n3 (concat (map item_bytes its) ++ 0 :: r)))).
      { cbn [adv st_pos]. unfold n3, off, zlen in *. rewrite app_length in *. rewrite wrap32s_id by blia. blia. }
      rewrite Hpos.
      rewrite (IH f _ (adv st n3 _) r W); [| cbn in Fu; blia | apply adv_fail | cbn [adv st_pos]; blia | cbn [adv st_pos]; unfold n3; blia | apply adv_rest].
      destruct (apply_items its _) as [gs'| |]; try reflexivity.
      rewrite adv_adv. replace (n3 + (items_len its + 1))%nat with (items_len (IP gid p :: its) + 1)%nat by (unfold n3; blia). reflexivity.
Qed.
