(* Proofs_SaveSafe.v — the writer reaches no unchecked index when every parameter holds at least as
   many values as its dimensions announce (C13, writer half). *)
From Coq Require Import Lia.
From EZ Require Import Base Bytes Types Api Enc.
Local Open Scope N_scope.

Lemma take_cells_ok : forall A site n (l : list A), (n <= length l)%nat -> take_cells site n l = Ok (firstn n l).
Proof.
  intros A site n. induction n as [|n IH]; intros l H; cbn [take_cells firstn]; [reflexivity|].
  destruct l as [|x t]; [simpl in H; lia|]. rewrite IH by (simpl in H; lia). reflexivity.
Qed.

(* what Parameter::set and Parameter::read both guarantee: the live value vector covers the cells *)
Definition covered (p : param) : Prop :=
  (0 < has_size (p_dims p))%Z ->
  match p_type p with
  | TChar => match p_dims p with
             | [w] => p_strs p <> []
             | _ :: rest => prodN rest <= nlen (p_strs p)
             | [] => True
             end
  | TFloat => prodN (p_dims p) <= nlen (p_floats p)
  | TInt | TByte => prodN (p_dims p) <= nlen (p_ints p)
  | TNone => True
  end.

Lemma data_bytes_defined : forall p, covered p -> exists r, data_bytes p = Ok r.
Proof.
  intros p C. unfold data_bytes, covered in *.
  destruct (has_size (p_dims p) <=? 0)%Z eqn:H; [eauto|].
  apply Z.leb_gt in H. specialize (C H).
  destruct (p_type p).
  - destruct (p_dims p) as [|w rest]; [eauto|]. destruct rest as [|r1 rt].
    + destruct (p_strs p); [congruence|eauto].
    + destruct (nlen (p_strs p) <? prodN (r1 :: rt)) eqn:L; [apply N.ltb_lt in L; lia|].
      rewrite take_cells_ok by (unfold nlen in *; lia). cbn [obind]. eauto.
  - destruct (bstr_eqb (p_name p) nm_DATA_START); [eauto|].
    destruct (nlen (p_ints p) <? prodN (p_dims p)) eqn:L; [apply N.ltb_lt in L; lia|].
    rewrite take_cells_ok by (unfold nlen in *; lia). cbn [obind]. eauto.
  - destruct (bstr_eqb (p_name p) nm_DATA_START); [eauto|].
    destruct (nlen (p_ints p) <? prodN (p_dims p)) eqn:L; [apply N.ltb_lt in L; lia|].
    rewrite take_cells_ok by (unfold nlen in *; lia). cbn [obind]. eauto.
  - destruct (bstr_eqb (p_name p) nm_DATA_START); [eauto|].
    destruct (nlen (p_floats p) <? prodN (p_dims p)) eqn:L; [apply N.ltb_lt in L; lia|].
    rewrite take_cells_ok by (unfold nlen in *; lia). cbn [obind]. eauto.
  - destruct (bstr_eqb (p_name p) nm_DATA_START); eauto.
Qed.

Lemma param_record_defined : forall p gid, covered p -> exists r, param_record p gid = Ok r.
Proof.
  intros p gid C. unfold param_record. destruct (data_bytes_defined p C) as [[d ds] ->]. cbn [obind]. eauto.
Qed.

Lemma params_records_defined : forall ps gid base acc dsp, Forall covered ps ->
  exists r, params_records ps gid base acc dsp = Ok r.
Proof.
  induction ps as [|p t IH]; intros gid base acc dsp F; cbn [params_records]; [eauto|].
  inversion F as [|? ? Cp Ft]; subst.
  destruct (param_record_defined p gid Cp) as [[bs ds] ->]. cbn [obind]. apply IH, Ft.
Qed.

Lemma groups_records_defined : forall gs gid base acc dsp, Forall (fun g => Forall covered (g_params g)) gs ->
  exists r, groups_records gs gid base acc dsp = Ok r.
Proof.
  induction gs as [|g t IH]; intros gid base acc dsp F; cbn [groups_records]; [eauto|].
  inversion F as [|? ? Cg Ft]; subst.
  destruct (_ && _); [apply IH, Ft|].
  destruct (params_records_defined (g_params g) gid base (acc ++ group_record g gid) dsp Cg) as [[a d] ->].
  cbn [obind]. apply IH, Ft.
Qed.

(* saving such an object always produces a file: no exception, no unchecked access *)
Theorem save_defined : forall s, Forall (fun g => Forall covered (g_params g)) (groups s) -> exists bytes, save s = Ok bytes.
Proof.
  intros s F. unfold save, section_bytes.
  destruct (groups_records_defined (groups s) 1%Z 512 [low8 (Z.of_N (ps_start (pro s))); 80; 0; 84] None F) as [[recs dsp] ->].
  cbn [obind]. destruct (finish_section recs dsp) as [sec blocks]. cbn [obind]. eauto.
Qed.

(* Parameter::set establishes it (within the int range of the emptiness test) *)
Lemma set_ints_covered : forall p data dims q, set_ints p data dims = Ok q ->
  prodN (dims_or_len dims (nlen data)) < 2147483648 -> covered q.
Proof.
  intros p data dims q H Hr. unfold set_ints in H.
  destruct (dim_consistent (nlen data) (dims_or_len dims (nlen data))) eqn:C; [|discriminate].
  injection H as <-. unfold covered. cbn [p_dims p_type p_ints]. intros _.
  unfold dim_consistent in C. destruct (nlen data =? 0) eqn:Z0.
  - destruct (dims_or_len dims (nlen data)) as [|d t] eqn:D; [unfold dims_or_len in D; destruct dims; discriminate|].
    apply Z.eqb_eq in C. apply N.eqb_eq in Z0. rewrite Z0. unfold wrap32s in C. rewrite Z.mod_small in C by lia.
    destruct (Z.of_N (prodN (d :: t)) <? 2147483648)%Z eqn:Q; [lia|apply Z.ltb_ge in Q; lia].
  - apply N.eqb_eq in C. unfold wrap64, two64 in C. rewrite N.mod_small in C by lia. lia.
Qed.
