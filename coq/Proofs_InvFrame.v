(* Proofs_InvFrame.v — C05: the WHOLE agreement predicate Inv (all ten components: header counts, parameter counts, the shape
   of every stored frame, the label-like lists and their order) is preserved when a frame of the announced shape is appended
   to a data set that holds analog data.  Composition of: the frame store (Proofs_Store), "the parameters follow the data"
   and "no parameter but POINT:FRAMES changes" (Proofs_Updaters, Proofs_ApiSafe), "the header follows the parameters"
   (Proofs_Header).  The side conditions are the ones the failed attempts at the general statement had shown necessary. *)
From Coq Require Import Lia ZifyNat ZifyN ZifyBool Bool.
From EZ Require Import Base Types Api Proofs_Lookup Proofs_Param Proofs_Guards Spec_Inv Proofs_Inv Proofs_Header Spec_Typed Proofs_Store
  Proofs_Updaters Proofs_ApiSafe.
Local Open Scope N_scope.

(* ---------- the readers of Spec_Inv only look parameters up ---------- *)
Lemma lk_int0_ext : forall gs gs' g n, lookup gs' g n = lookup gs g n -> lk_int0 gs' g n = lk_int0 gs g n.
Proof. intros gs gs' g n H. unfold lk_int0. rewrite H. reflexivity. Qed.
Lemma lk_count_ext : forall gs gs' g n, lookup gs' g n = lookup gs g n -> lk_count gs' g n = lk_count gs g n.
Proof. intros gs gs' g n H. unfold lk_count. rewrite H. reflexivity. Qed.
Lemma lk_strs_ext : forall gs gs' g n, lookup gs' g n = lookup gs g n -> lk_strs gs' g n = lk_strs gs g n.
Proof. intros gs gs' g n H. unfold lk_strs. rewrite H. reflexivity. Qed.

Lemma r_int0_lk : forall k gs g n v, r_int0 k gs g n = Ok v -> lk_int0 gs g n = Some (z_to_usize v).
Proof.
  intros k gs g n v H. unfold r_int0 in H. unfold lk_int0. destruct (lookup gs g n) as [p| |]; cbn [obind] in H; try discriminate.
  unfold values_as_int in H. destruct (p_type p); cbn [obind] in H; try discriminate.
  destruct (p_ints p) as [|x t]; [cbv in H; discriminate|]. unfold at_ in H. cbn in H. injection H as ->. reflexivity.
Qed.
Lemma lk_strs_count : forall gs g n l, lk_strs gs g n = Some l -> lk_count gs g n = Some (nlen l).
Proof.
  intros gs g n l H. unfold lk_strs in H. unfold lk_count. destruct (lookup gs g n) as [p| |]; try discriminate.
  destruct (p_type p); try discriminate. injection H as <-. reflexivity.
Qed.

Lemma lk_int0_r : forall k gs g n x, lk_int0 gs g n = Some x -> exists v, r_int0 k gs g n = Ok v /\ z_to_usize v = x.
Proof.
  intros k gs g n x H. unfold lk_int0 in H. unfold r_int0. destruct (lookup gs g n) as [p| |]; try discriminate. cbn [obind].
  unfold values_as_int. destruct (p_type p); try discriminate. destruct (p_ints p) as [|v t]; try discriminate.
  injection H as <-. exists v. cbn [obind]. split; [apply at0_cons|reflexivity].
Qed.
Lemma r_int0_det : forall k1 k2 gs g n v1 v2, r_int0 k1 gs g n = Ok v1 -> r_int0 k2 gs g n = Ok v2 -> v1 = v2.
Proof. intros k1 k2 gs g n v1 v2 H1 H2. unfold r_int0 in *. congruence. Qed.
Lemma lookup_params_nonempty : forall gs g n p ga, lookup gs g n = Ok p -> group_named gs g = Ok ga -> g_params ga <> [].
Proof.
  intros gs g n p ga L G E. unfold lookup in L. rewrite G in L. cbn [obind] in L. unfold param_named, param_idx in L. rewrite E in L.
  cbn in L. discriminate.
Qed.
Lemma lk_int0_lookup : forall gs g n x, lk_int0 gs g n = Some x -> exists p, lookup gs g n = Ok p.
Proof. intros gs g n x H. unfold lk_int0 in H. destruct (lookup gs g n) as [p| |]; try discriminate. eauto. Qed.
Lemma forallb_filter_app : forall A (p q : A -> bool) l l', forallb q (filter p (l ++ l')) = forallb q (filter p l) && forallb q (filter p l').
Proof. intros A p q l l'. rewrite filter_app, forallb_app. reflexivity. Qed.

Ltac ne := let E := fresh in intro E; apply bstr_eqb_eq in E; vm_compute in E; discriminate.

Section WithOps.
Variable f_key : f32 -> outcome Z.
Variable f_tosize : f32 -> outcome N.
Variable f_div : f32 -> f32 -> f32.
Variable f_is_zero : f32 -> bool.
Hypothesis f_key_nt : forall x e, f_key x <> Throw e.
Hypothesis f_tosize_nt : forall x e, f_tosize x <> Throw e.

(* the shape a frame must have to be appended to the data set of s: the declared point names in order, the data set's
   sub-frame count, the declared channel names in every sub-frame *)
Definition announced (s : state) (f : frame) : Prop :=
  lk_strs (groups s) nm_POINT nm_LABELS = Some (map pt_name (fr_pts f)) /\
  nlen (fr_subs f) = h_byframe (hdr s) /\
  (forall sf, In sf (fr_subs f) -> lk_strs (groups s) nm_ANALOG nm_LABELS = Some (map ch_name sf)).

(* the rates announce no analog sub-frame: POINT:RATE is not zero and ANALOG:RATE / POINT:RATE truncates to 0 *)
Definition rates_announce_none (gs : list group) : Prop :=
  forall rate, r_float0 12 gs nm_POINT nm_RATE = Ok rate ->
    f32_is_zero rate = false /\
    (forall ar q, r_float0 15 gs nm_ANALOG nm_RATE = Ok ar -> f_tosize (f_div ar rate) = Ok q -> q = 0).

Lemma update_header_byframe_zero : forall s s' f0 ft,
  update_header f_key f_tosize f_div true s = ROk tt s' -> frames s = f0 :: ft -> fr_subs f0 = [] -> h_byframe (hdr s) = 0 ->
  rates_announce_none (groups s) -> h_byframe (hdr s') = 0.
Proof.
  intros s s' f0 ft H Ef Hs Hb Hr. apply update_header_factor in H. destruct H as [P _]. unfold uh_pure in P.
  destruct (rate_points_pure f_key (groups s) (hdr s)) as [[rate h2]| |] eqn:E2; cbn [obind] in P; try discriminate.
  destruct (byframe_pure f_tosize f_div (groups s) (first_frame true s) rate h2) as [h3| |] eqn:E3; cbn [obind] in P; try discriminate.
  destruct (analogs_pure (groups s) h3) as [h4| |] eqn:E4; cbn [obind] in P; try discriminate.
  destruct (rate_points_spec _ _ _ _ _ E2) as [R1 [_ [_ [_ [B2 _]]]]].
  destruct (analogs_spec _ _ _ E4) as [_ [_ [B4 _]]].
  destruct (frames_spec _ _ _ P) as [_ [_ [B5 _]]].
  rewrite B5, B4. destruct (Hr rate R1) as [Q1 Q2].
  unfold byframe_pure, first_frame in E3. rewrite Ef, Hs in E3. change (negb (nlen (@nil subframe) =? 0)) with false in E3. cbv iota in E3.
  destruct (group_named (groups s) nm_ANALOG) as [ga| |]; cbn [obind] in E3; try discriminate.
  destruct (negb (nlen (g_params ga) =? 0)); [|injection E3 as <-; lia].
  rewrite Q1 in E3.
  destruct (r_float0 15 (groups s) nm_ANALOG nm_RATE) as [ar| |] eqn:Ear; cbn [obind] in E3; try discriminate.
  destruct (f_tosize (f_div ar rate)) as [q| |] eqn:Eq; cbn [obind] in E3; try discriminate.
  assert (q = 0) by (apply (Q2 ar q eq_refl Eq)). subst q.
  assert (C : negb (0 =? h_byframe h2) = false) by (rewrite B2, Hb; reflexivity). rewrite C in E3. injection E3 as <-. lia.
Qed.

Theorem frame_append_keeps_inv : forall f s s' f0 ft a,
  Inv s -> MT (groups s) ->
  frames s = f0 :: ft -> fr_subs f0 <> [] ->                 (* the data set holds analog data *)
  lk_int0 (groups s) nm_ANALOG nm_USED = Some a -> a <> 0 ->   (* ... of at least one channel *)
  announced s f ->
  nlen (frames s) + 1 < 2147483648 -> nlen (fr_pts f0) < 2147483648 -> a < 2147483648 -> a * h_byframe (hdr s) < two64 ->
  api_frame f_key f_tosize f_div f_is_zero f None s = ROk tt s' ->
  Inv s'.
Proof.
  intros f s s' f0 ft a HI HM Ef Hsub Ha Ha0 [An1 [An2 An3]] Sz1 Sz2 Sz3 Sz4 H.
  (* what Inv s says *)
  unfold Inv, inv_b in HI. set (r := inv_report_of s) in HI.
  apply andb_prop in HI. destruct HI as [HI I10]. apply andb_prop in HI. destruct HI as [HI I9]. apply andb_prop in HI. destruct HI as [HI I8].
  apply andb_prop in HI. destruct HI as [HI I7]. apply andb_prop in HI. destruct HI as [HI I6]. apply andb_prop in HI. destruct HI as [HI I5].
  apply andb_prop in HI. destruct HI as [HI I4]. apply andb_prop in HI. destruct HI as [HI I3]. apply andb_prop in HI. destruct HI as [I1 I2].
  unfold r, inv_report_of in I1, I2, I3, I4, I5, I6, I7, I8, I9, I10.
  cbn [r_points_hdr r_points_frames r_frames_hdr r_frames_stored r_subframes r_analogs_hdr r_analogs_meas r_analogs_frames r_label_counts r_label_order] in *.
  rewrite Ha in *.
  assert (F0 : filled f0 = true).
  { unfold filled. destruct (fr_subs f0) as [|x t]; [contradiction|]. unfold nlen. cbn [length]. rewrite Bool.andb_false_r. reflexivity. }
  rewrite Ef in I2, I5, I8, I10. cbn [filter] in I2, I5, I8. rewrite F0 in I2, I5, I8, I10.
  destruct (lk_int0 (groups s) nm_POINT nm_USED) as [u|] eqn:Eu; [|discriminate].
  cbn [forallb] in I2, I5, I8.
  apply andb_prop in I2. destruct I2 as [I2a I2b]. apply andb_prop in I5. destruct I5 as [I5a I5b].
  assert (Bf : h_byframe (hdr s) = nlen (fr_subs f0)) by lia.
  assert (Bf1 : (1 <=? h_byframe (hdr s)) = true).
  { rewrite Bf. destruct (fr_subs f0); [contradiction|]. unfold nlen. cbn [length]. lia. }
  rewrite Bf1 in I6, I7, I8. apply andb_prop in I8. destruct I8 as [I8a I8b].
  assert (Ua : u = nlen (fr_pts f0)) by lia.
  assert (Na : nan_of f0 = a).
  { unfold nan_of. destruct (fr_subs f0) as [|sf0 t]; [contradiction|]. cbn [forallb] in I8a. lia. }
  (* the call: guards, store, parameters, header *)
  set (fs' := frames s ++ [f]).
  assert (P : put empty_frame (frames s) f None = Ok fs') by reflexivity.
  destruct (lk_int0_r 0 _ _ _ _ Eu) as [vu [Rvu Evu]]. destruct (lk_int0_r 0 _ _ _ _ Ha) as [va [Rva Eva]].
  assert (CA : counts_agree (set_frames s fs')).
  { unfold counts_agree, fs'. cbn [frames set_frames groups]. rewrite Ef. cbn [app]. split.
    - exists vu. split; [exact Rvu|lia].
    - exists va. split; [exact Rva|lia]. }
  assert (Sm : forall fs'', put empty_frame (frames s) f None = Ok fs'' -> small_frames fs'').
  { intros fs'' E. rewrite P in E. injection E as <-. unfold small_frames, fs'. rewrite Ef. cbn [app]. rewrite Ef in Sz1.
    split; [unfold nlen in *; cbn [length] in *; rewrite app_length; cbn [length]; lia|]. split; [exact Sz2|rewrite Na; exact Sz3]. }
  destruct (api_frame_counts f_key f_tosize f_div f_is_zero f_key_nt f_tosize_nt f None s s' HM Sm H) as [_ CF].
  pose proof (api_frame_keeps_parameters f_key f_tosize f_div f_is_zero f None s s' H
                (fun fs'' E => ltac:(rewrite P in E; injection E as <-; exact CA))) as KL.
  rewrite api_frame_factor in H. destruct (frame_guard f_is_zero (groups s) (hdr s) f) as [[]|x|t]; try discriminate.
  unfold store_and_update in H. cbv [bind getS] in H. rewrite P in H. cbn [lift] in H. cbv [putS] in H.
  destruct (update_parameters_keeps_others f_key f_tosize f_div (set_frames s fs') _ CA H) as [[s1 [E [Fr1 [Hd1 [_ Kl1]]]]]|[[e [s2 E]]|[t E]]]; try discriminate.
  symmetry in E. cbn [frames set_frames hdr groups] in Fr1, Hd1, Kl1.
  destruct (update_header_agrees f_key f_tosize f_div true s1 s' E) as (G' & Fr' & _ & [u' [Ru' Hp']] & _ & [fz [Rfz Hfr]] & [ga [Gga [_ Gn]]] & Hbf).
  pose proof (update_header_exact f_key f_tosize f_div true s1 s' E) as Hex.
  assert (Fs' : frames s' = f0 :: ft ++ [f]) by (rewrite Fr', Fr1; unfold fs'; rewrite Ef; reflexivity).
  (* sub-frames per frame: the data decide *)
  assert (Bf' : h_byframe (hdr s') = h_byframe (hdr s)).
  { rewrite Bf. apply Hbf; [|exact Hsub]. unfold first_frame. rewrite Fr1. unfold fs'. rewrite Ef. reflexivity. }
  (* the look-ups of s' *)
  assert (Lu : lk_int0 (groups s') nm_POINT nm_USED = Some u).
  { assert (N1 : nm_USED <> nm_FRAMES) by ne. pose proof (KL nm_POINT nm_USED (or_intror N1)) as K1.
    rewrite (lk_int0_ext (groups s) (groups s') nm_POINT nm_USED K1). exact Eu. }
  assert (La : lk_int0 (groups s') nm_ANALOG nm_USED = Some a).
  { assert (N1 : nm_ANALOG <> nm_POINT) by ne. pose proof (KL nm_ANALOG nm_USED (or_introl N1)) as K1.
    rewrite (lk_int0_ext (groups s) (groups s') nm_ANALOG nm_USED K1). exact Ha. }
  (* header point count *)
  assert (Hpts : h_points (hdr s') = u).
  { rewrite Hp'. pose proof (r_int0_lk _ _ _ _ _ Ru') as L. rewrite <- G' in L. rewrite Lu in L. injection L as L. lia. }
  (* header channel count *)
  assert (Han : h_nb_analogs (hdr s') = a).
  { destruct (lk_int0_lookup _ _ _ _ La) as [pa Lpa]. rewrite G' in Lpa.
    destruct (Gn (lookup_params_nonempty _ _ _ _ _ Lpa Gga)) as [au [Rau Hau]].
    pose proof (r_int0_lk _ _ _ _ _ Rau) as L. rewrite <- G' in L. rewrite La in L. injection L as L.
    rewrite Hau; [lia| rewrite Bf'; lia | rewrite Bf'; rewrite <- L; exact Sz4]. }
  (* facts used below *)
  apply andb_prop in I9. destruct I9 as [I9 I9h]. apply andb_prop in I9. destruct I9 as [I9 I9g]. apply andb_prop in I9. destruct I9 as [I9 I9f].
  apply andb_prop in I9. destruct I9 as [I9 I9e]. apply andb_prop in I9. destruct I9 as [I9 I9d]. apply andb_prop in I9. destruct I9 as [I9 I9c].
  apply andb_prop in I9. destruct I9 as [I9a I9b].
  apply andb_prop in I10. destruct I10 as [I10a I10b].
  assert (Pf : nlen (fr_pts f) = u).
  { pose proof (lk_strs_count _ _ _ _ An1) as C. rewrite C in I9a. cbn [opt_eqb] in I9a. unfold nlen in *. rewrite map_length in I9a. lia. }
  assert (Cf : forall sf, In sf (fr_subs f) -> nlen sf = a).
  { intros sf Hin. pose proof (lk_strs_count _ _ _ _ (An3 sf Hin)) as C. rewrite C in I9d. cbn [opt_eqb] in I9d. unfold nlen in *. rewrite map_length in I9d. lia. }
  destruct CF as [[vf [Rvf Evf]] _].
  pose proof (r_int0_lk _ _ _ _ _ Rvf) as Lf.
  assert (Efz : fz = vf) by (rewrite <- G' in Rfz; exact (r_int0_det _ _ _ _ _ _ _ Rfz Rvf)).
  assert (Ia : h_nb_analogs (hdr s) = a) by (cbn [opt_eqb] in I6; lia).
  assert (KC : forall g n, (g <> nm_POINT \/ n <> nm_FRAMES) -> lk_count (groups s') g n = lk_count (groups s) g n)
    by (intros g n Hne; apply lk_count_ext, KL, Hne).
  assert (KS : forall g n, (g <> nm_POINT \/ n <> nm_FRAMES) -> lk_strs (groups s') g n = lk_strs (groups s) g n)
    by (intros g n Hne; apply lk_strs_ext, KL, Hne).
  assert (NA : nm_ANALOG <> nm_POINT) by ne.
  (* assemble *)
  unfold Inv, inv_b, inv_report_of.
  cbn [r_points_hdr r_points_frames r_frames_hdr r_frames_stored r_subframes r_analogs_hdr r_analogs_meas r_analogs_frames r_label_counts r_label_order].
  rewrite Lu, La, Fs', Bf', Bf1. cbn [filter]. rewrite F0. cbn [forallb].
  rewrite !forallb_filter_app.
  repeat (apply andb_true_intro; split).
  - cbn [opt_eqb]. lia.
  - exact I2a.
  - exact I2b.
  - cbn [filter]. destruct (filled f); cbn [forallb]; [lia|reflexivity].
  - rewrite Lf. cbn [opt_eqb]. rewrite Hfr; [rewrite Efz; apply N.eqb_refl|right; lia].
  - rewrite Lf. cbn [opt_eqb]. rewrite Fs' in Evf. lia.
  - lia.
  - exact I5b.
  - cbn [filter]. destruct (filled f); cbn [forallb]; [lia|reflexivity].
  - cbn [opt_eqb]. lia.
  - assert (Ex' : exact (hdr s')).
    { apply Hex.
      - rewrite Hd1. unfold exact. lia.
      - rewrite Hd1, Bf'. lia.
      - intros au Rau. pose proof (r_int0_lk _ _ _ _ _ Rau) as L. rewrite <- G' in L. rewrite La in L. injection L as L. rewrite Bf'. lia. }
    unfold exact in Ex'. lia.
  - exact I8a.
  - exact I8b.
  - cbn [filter]. destruct (filled f); cbn [forallb]; [|reflexivity]. rewrite andb_true_r. apply forallb_forall. intros sf Hin.
    specialize (Cf sf Hin). lia.
  - rewrite (KC nm_POINT nm_LABELS) by (right; ne). exact I9a.
  - rewrite (KC nm_POINT nm_DESCRIPTIONS) by (right; ne). exact I9b.
  - rewrite (KC nm_POINT nm_UNITS) by (right; ne). exact I9c.
  - rewrite (KC nm_ANALOG nm_LABELS) by (left; exact NA). exact I9d.
  - rewrite (KC nm_ANALOG nm_DESCRIPTIONS) by (left; exact NA). exact I9e.
  - rewrite (KC nm_ANALOG nm_SCALE) by (left; exact NA). exact I9f.
  - rewrite (KC nm_ANALOG nm_OFFSET) by (left; exact NA). exact I9g.
  - rewrite (KC nm_ANALOG nm_UNITS) by (left; exact NA). exact I9h.
  - rewrite (KS nm_POINT nm_LABELS) by (right; ne). exact I10a.
  - rewrite (KS nm_ANALOG nm_LABELS) by (left; exact NA). exact I10b.
Qed.

Theorem frame_append_keeps_inv_points_only : forall f s s' f0 ft,
  Inv s -> MT (groups s) ->
  frames s = f0 :: ft -> fr_pts f0 <> [] -> fr_subs f0 = [] ->     (* the data set holds points and no analog data *)
  lk_int0 (groups s) nm_ANALOG nm_USED = Some 0 ->                 (* no channel is declared *)
  rates_announce_none (groups s) ->                                (* and the rates announce no sub-frame *)
  announced s f ->
  nlen (frames s) + 1 < 2147483648 -> nlen (fr_pts f0) < 2147483648 ->
  api_frame f_key f_tosize f_div f_is_zero f None s = ROk tt s' ->
  Inv s'.
Proof.
  intros f s s' f0 ft HI HM Ef Hpt Hsub Ha Hrates [An1 [An2 An3]] Sz1 Sz2 H. set (a := 0) in *.
  (* what Inv s says *)
  unfold Inv, inv_b in HI. set (r := inv_report_of s) in HI.
  apply andb_prop in HI. destruct HI as [HI I10]. apply andb_prop in HI. destruct HI as [HI I9]. apply andb_prop in HI. destruct HI as [HI I8].
  apply andb_prop in HI. destruct HI as [HI I7]. apply andb_prop in HI. destruct HI as [HI I6]. apply andb_prop in HI. destruct HI as [HI I5].
  apply andb_prop in HI. destruct HI as [HI I4]. apply andb_prop in HI. destruct HI as [HI I3]. apply andb_prop in HI. destruct HI as [I1 I2].
  unfold r, inv_report_of in I1, I2, I3, I4, I5, I6, I7, I8, I9, I10.
  cbn [r_points_hdr r_points_frames r_frames_hdr r_frames_stored r_subframes r_analogs_hdr r_analogs_meas r_analogs_frames r_label_counts r_label_order] in *.
  rewrite Ha in *.
  assert (F0 : filled f0 = true).
  { unfold filled. destruct (fr_pts f0) as [|x t]; [contradiction|]. unfold nlen. cbn [length]. reflexivity. }
  rewrite Ef in I2, I5, I8, I10. cbn [filter] in I2, I5, I8. rewrite F0 in I2, I5, I8, I10.
  destruct (lk_int0 (groups s) nm_POINT nm_USED) as [u|] eqn:Eu; [|discriminate].
  cbn [forallb] in I2, I5, I8.
  apply andb_prop in I2. destruct I2 as [I2a I2b]. apply andb_prop in I5. destruct I5 as [I5a I5b].
  assert (Bf : h_byframe (hdr s) = 0) by (rewrite Hsub in I5a; unfold nlen in I5a; cbn [length] in I5a; lia).
  assert (Bf1 : (1 <=? h_byframe (hdr s)) = false) by (rewrite Bf; reflexivity).
  assert (Ua : u = nlen (fr_pts f0)) by lia.
  assert (Na : nan_of f0 = a) by (unfold nan_of; rewrite Hsub; reflexivity).
  assert (Sz3 : a < 2147483648) by (unfold a; lia).
  (* the call: guards, store, parameters, header *)
  set (fs' := frames s ++ [f]).
  assert (P : put empty_frame (frames s) f None = Ok fs') by reflexivity.
  destruct (lk_int0_r 0 _ _ _ _ Eu) as [vu [Rvu Evu]]. destruct (lk_int0_r 0 _ _ _ _ Ha) as [va [Rva Eva]].
  assert (CA : counts_agree (set_frames s fs')).
  { unfold counts_agree, fs'. cbn [frames set_frames groups]. rewrite Ef. cbn [app]. split.
    - exists vu. split; [exact Rvu|lia].
    - exists va. split; [exact Rva|lia]. }
  assert (Sm : forall fs'', put empty_frame (frames s) f None = Ok fs'' -> small_frames fs'').
  { intros fs'' E. rewrite P in E. injection E as <-. unfold small_frames, fs'. rewrite Ef. cbn [app]. rewrite Ef in Sz1.
    split; [unfold nlen in *; cbn [length] in *; rewrite app_length; cbn [length]; lia|]. split; [exact Sz2|rewrite Na; exact Sz3]. }
  destruct (api_frame_counts f_key f_tosize f_div f_is_zero f_key_nt f_tosize_nt f None s s' HM Sm H) as [_ CF].
  pose proof (api_frame_keeps_parameters f_key f_tosize f_div f_is_zero f None s s' H
                (fun fs'' E => ltac:(rewrite P in E; injection E as <-; exact CA))) as KL.
  rewrite api_frame_factor in H. destruct (frame_guard f_is_zero (groups s) (hdr s) f) as [[]|x|t]; try discriminate.
  unfold store_and_update in H. cbv [bind getS] in H. rewrite P in H. cbn [lift] in H. cbv [putS] in H.
  destruct (update_parameters_keeps_others f_key f_tosize f_div (set_frames s fs') _ CA H) as [[s1 [E [Fr1 [Hd1 [_ Kl1]]]]]|[[e [s2 E]]|[t E]]]; try discriminate.
  symmetry in E. cbn [frames set_frames hdr groups] in Fr1, Hd1, Kl1.
  destruct (update_header_agrees f_key f_tosize f_div true s1 s' E) as (G' & Fr' & _ & [u' [Ru' Hp']] & _ & [fz [Rfz Hfr]] & [ga [Gga [_ Gn]]] & Hbf).
  pose proof (update_header_exact f_key f_tosize f_div true s1 s' E) as Hex.
  assert (Fs' : frames s' = f0 :: ft ++ [f]) by (rewrite Fr', Fr1; unfold fs'; rewrite Ef; reflexivity).
  (* sub-frames per frame: the data decide *)
  assert (Bf' : h_byframe (hdr s') = h_byframe (hdr s)).
  { rewrite Bf. apply (update_header_byframe_zero s1 s' f0 (ft ++ [f]) E).
    - rewrite Fr1. unfold fs'. rewrite Ef. reflexivity.
    - exact Hsub.
    - rewrite Hd1. exact Bf.
    - intros rate Rr. assert (N1 : nm_RATE <> nm_FRAMES) by ne.
      unfold r_float0 in Rr. rewrite (Kl1 nm_POINT nm_RATE (or_intror N1)) in Rr. destruct (Hrates rate Rr) as [Q1 Q2].
      split; [exact Q1|]. intros ar q Ra. assert (N2 : nm_ANALOG <> nm_POINT) by ne. unfold r_float0 in Ra. rewrite (Kl1 nm_ANALOG nm_RATE (or_introl N2)) in Ra. exact (Q2 ar q Ra). }
  (* the look-ups of s' *)
  assert (Lu : lk_int0 (groups s') nm_POINT nm_USED = Some u).
  { assert (N1 : nm_USED <> nm_FRAMES) by ne. pose proof (KL nm_POINT nm_USED (or_intror N1)) as K1.
    rewrite (lk_int0_ext (groups s) (groups s') nm_POINT nm_USED K1). exact Eu. }
  assert (La : lk_int0 (groups s') nm_ANALOG nm_USED = Some a).
  { assert (N1 : nm_ANALOG <> nm_POINT) by ne. pose proof (KL nm_ANALOG nm_USED (or_introl N1)) as K1.
    rewrite (lk_int0_ext (groups s) (groups s') nm_ANALOG nm_USED K1). exact Ha. }
  (* header point count *)
  assert (Hpts : h_points (hdr s') = u).
  { rewrite Hp'. pose proof (r_int0_lk _ _ _ _ _ Ru') as L. rewrite <- G' in L. rewrite Lu in L. injection L as L. lia. }
  (* facts used below *)
  apply andb_prop in I9. destruct I9 as [I9 I9h]. apply andb_prop in I9. destruct I9 as [I9 I9g]. apply andb_prop in I9. destruct I9 as [I9 I9f].
  apply andb_prop in I9. destruct I9 as [I9 I9e]. apply andb_prop in I9. destruct I9 as [I9 I9d]. apply andb_prop in I9. destruct I9 as [I9 I9c].
  apply andb_prop in I9. destruct I9 as [I9a I9b].
  apply andb_prop in I10. destruct I10 as [I10a I10b].
  assert (Pf : nlen (fr_pts f) = u).
  { pose proof (lk_strs_count _ _ _ _ An1) as C. rewrite C in I9a. cbn [opt_eqb] in I9a. unfold nlen in *. rewrite map_length in I9a. lia. }
  assert (Cf : forall sf, In sf (fr_subs f) -> nlen sf = a).
  { intros sf Hin. pose proof (lk_strs_count _ _ _ _ (An3 sf Hin)) as C. rewrite C in I9d. cbn [opt_eqb] in I9d. unfold nlen in *. rewrite map_length in I9d. lia. }
  destruct CF as [[vf [Rvf Evf]] _].
  pose proof (r_int0_lk _ _ _ _ _ Rvf) as Lf.
  assert (Efz : fz = vf) by (rewrite <- G' in Rfz; exact (r_int0_det _ _ _ _ _ _ _ Rfz Rvf)).
  assert (KC : forall g n, (g <> nm_POINT \/ n <> nm_FRAMES) -> lk_count (groups s') g n = lk_count (groups s) g n)
    by (intros g n Hne; apply lk_count_ext, KL, Hne).
  assert (KS : forall g n, (g <> nm_POINT \/ n <> nm_FRAMES) -> lk_strs (groups s') g n = lk_strs (groups s) g n)
    by (intros g n Hne; apply lk_strs_ext, KL, Hne).
  assert (NA : nm_ANALOG <> nm_POINT) by ne.
  (* assemble *)
  unfold Inv, inv_b, inv_report_of.
  cbn [r_points_hdr r_points_frames r_frames_hdr r_frames_stored r_subframes r_analogs_hdr r_analogs_meas r_analogs_frames r_label_counts r_label_order].
  rewrite Lu, La, Fs', Bf', Bf1. cbn [filter]. rewrite F0. cbn [forallb].
  rewrite !forallb_filter_app.
  repeat (apply andb_true_intro; split).
  - cbn [opt_eqb]. lia.
  - exact I2a.
  - exact I2b.
  - cbn [filter]. destruct (filled f); cbn [forallb]; [lia|reflexivity].
  - rewrite Lf. cbn [opt_eqb]. rewrite Hfr; [rewrite Efz; apply N.eqb_refl|left; rewrite Hpts, Ua; destruct (fr_pts f0); [contradiction|unfold nlen; cbn [length]; lia]].
  - rewrite Lf. cbn [opt_eqb]. rewrite Fs' in Evf. lia.
  - exact I5a.
  - exact I5b.
  - cbn [filter]. destruct (filled f); cbn [forallb]; [lia|reflexivity].
  - reflexivity.
  - reflexivity.
  - reflexivity.
  - rewrite (KC nm_POINT nm_LABELS) by (right; ne). exact I9a.
  - rewrite (KC nm_POINT nm_DESCRIPTIONS) by (right; ne). exact I9b.
  - rewrite (KC nm_POINT nm_UNITS) by (right; ne). exact I9c.
  - rewrite (KC nm_ANALOG nm_LABELS) by (left; exact NA). exact I9d.
  - rewrite (KC nm_ANALOG nm_DESCRIPTIONS) by (left; exact NA). exact I9e.
  - rewrite (KC nm_ANALOG nm_SCALE) by (left; exact NA). exact I9f.
  - rewrite (KC nm_ANALOG nm_OFFSET) by (left; exact NA). exact I9g.
  - rewrite (KC nm_ANALOG nm_UNITS) by (left; exact NA). exact I9h.
  - rewrite (KS nm_POINT nm_LABELS) by (right; ne). exact I10a.
  - rewrite (KS nm_ANALOG nm_LABELS) by (left; exact NA). exact I10b.
Qed.

(* ---------- the general form: whatever the index, as long as the new frame list has the announced shape ---------- *)
Lemma strs_eqb_refl : forall l, strs_eqb l l = true.
Proof. induction l as [|x l IH]; cbn [strs_eqb]; [reflexivity|]. rewrite IH, andb_true_r. apply bstr_eqb_eq. reflexivity. Qed.

Theorem frame_call_keeps_inv : forall f idx s s' fs' g0 gt u a,
  Inv s -> MT (groups s) ->
  put empty_frame (frames s) f idx = Ok fs' ->
  lk_int0 (groups s) nm_POINT nm_USED = Some u ->
  lk_int0 (groups s) nm_ANALOG nm_USED = Some a -> a <> 0 -> 1 <= h_byframe (hdr s) ->
  (* the frame list after the store: its first frame holds analog data of the announced shape and names ... *)
  fs' = g0 :: gt -> fr_subs g0 <> [] -> nlen (fr_subs g0) = h_byframe (hdr s) -> nlen (fr_pts g0) = u -> nan_of g0 = a ->
  lk_strs (groups s) nm_POINT nm_LABELS = Some (map pt_name (fr_pts g0)) ->
  (forall sf0 t, fr_subs g0 = sf0 :: t -> lk_strs (groups s) nm_ANALOG nm_LABELS = Some (map ch_name sf0)) ->
  (* ... and every filled frame has the announced shape *)
  forallb (fun x => nlen (fr_pts x) =? u) (filter filled fs') = true ->
  forallb (fun x => nlen (fr_subs x) =? h_byframe (hdr s)) (filter filled fs') = true ->
  forallb (fun x => forallb (fun sf : subframe => nlen sf =? a) (fr_subs x)) (filter filled fs') = true ->
  nlen fs' < 2147483648 -> u < 2147483648 -> a < 2147483648 -> a * h_byframe (hdr s) < two64 ->
  api_frame f_key f_tosize f_div f_is_zero f idx s = ROk tt s' ->
  Inv s'.
Proof.
  intros f idx s s' fs' g0 gt u a HI HM P Eu Ha Ha0 Bf1 Efs Hsub Hns Hnp Na Lp Lc S1 S2 S3 Sz1 Sz2 Sz3 Sz4 H.
  unfold Inv, inv_b in HI. set (r := inv_report_of s) in HI.
  apply andb_prop in HI. destruct HI as [HI I10]. apply andb_prop in HI. destruct HI as [HI I9]. apply andb_prop in HI. destruct HI as [HI I8].
  apply andb_prop in HI. destruct HI as [HI I7]. apply andb_prop in HI. destruct HI as [HI I6]. apply andb_prop in HI. destruct HI as [HI I5].
  apply andb_prop in HI. destruct HI as [HI I4]. apply andb_prop in HI. destruct HI as [HI I3]. apply andb_prop in HI. destruct HI as [I1 I2].
  unfold r, inv_report_of in I1, I6, I7, I9. clear I2 I3 I4 I5 I8 I10.
  cbn [r_points_hdr r_analogs_hdr r_analogs_meas r_label_counts] in *.
  rewrite Ha, Eu in *.
  assert (Bf1b : (1 <=? h_byframe (hdr s)) = true) by lia. rewrite Bf1b in I6, I7.
  assert (F0 : filled g0 = true).
  { unfold filled. destruct (fr_subs g0) as [|x t]; [contradiction|]. unfold nlen. cbn [length]. rewrite Bool.andb_false_r. reflexivity. }
  destruct (lk_int0_r 0 _ _ _ _ Eu) as [vu [Rvu Evu]]. destruct (lk_int0_r 0 _ _ _ _ Ha) as [va [Rva Eva]].
  assert (CA : counts_agree (set_frames s fs')).
  { unfold counts_agree. cbn [frames set_frames groups]. rewrite Efs. split.
    - exists vu. split; [exact Rvu|lia].
    - exists va. split; [exact Rva|lia]. }
  assert (Sm : forall fs'', put empty_frame (frames s) f idx = Ok fs'' -> small_frames fs'').
  { intros fs'' E. rewrite P in E. injection E as <-. unfold small_frames. split; [exact Sz1|]. rewrite Efs. split; [lia|rewrite Na; exact Sz3]. }
  destruct (api_frame_counts f_key f_tosize f_div f_is_zero f_key_nt f_tosize_nt f idx s s' HM Sm H) as [_ CF].
  pose proof (api_frame_keeps_parameters f_key f_tosize f_div f_is_zero f idx s s' H
                (fun fs'' E => ltac:(rewrite P in E; injection E as <-; exact CA))) as KL.
  rewrite api_frame_factor in H. destruct (frame_guard f_is_zero (groups s) (hdr s) f) as [[]|x|t]; try discriminate.
  unfold store_and_update in H. cbv [bind getS] in H. rewrite P in H. cbn [lift] in H. cbv [putS] in H.
  destruct (update_parameters_keeps_others f_key f_tosize f_div (set_frames s fs') _ CA H) as [[s1 [E [Fr1 [Hd1 [_ Kl1]]]]]|[[e [s2 E]]|[t E]]]; try discriminate.
  symmetry in E. cbn [frames set_frames hdr groups] in Fr1, Hd1, Kl1.
  destruct (update_header_agrees f_key f_tosize f_div true s1 s' E) as (G' & Fr' & _ & [u' [Ru' Hp']] & _ & [fz [Rfz Hfr]] & [ga [Gga [_ Gn]]] & Hbf).
  pose proof (update_header_exact f_key f_tosize f_div true s1 s' E) as Hex.
  assert (Fs' : frames s' = g0 :: gt) by (rewrite Fr', Fr1; exact Efs).
  assert (Bf' : h_byframe (hdr s') = h_byframe (hdr s)).
  { rewrite <- Hns. apply Hbf; [|exact Hsub]. unfold first_frame. rewrite Fr1, Efs. reflexivity. }
  assert (Lu : lk_int0 (groups s') nm_POINT nm_USED = Some u).
  { assert (N1 : nm_USED <> nm_FRAMES) by ne. pose proof (KL nm_POINT nm_USED (or_intror N1)) as K1.
    rewrite (lk_int0_ext (groups s) (groups s') nm_POINT nm_USED K1). exact Eu. }
  assert (La : lk_int0 (groups s') nm_ANALOG nm_USED = Some a).
  { assert (N1 : nm_ANALOG <> nm_POINT) by ne. pose proof (KL nm_ANALOG nm_USED (or_introl N1)) as K1.
    rewrite (lk_int0_ext (groups s) (groups s') nm_ANALOG nm_USED K1). exact Ha. }
  assert (Hpts : h_points (hdr s') = u).
  { rewrite Hp'. pose proof (r_int0_lk _ _ _ _ _ Ru') as L. rewrite <- G' in L. rewrite Lu in L. injection L as L. lia. }
  assert (Han : h_nb_analogs (hdr s') = a).
  { destruct (lk_int0_lookup _ _ _ _ La) as [pa Lpa]. rewrite G' in Lpa.
    destruct (Gn (lookup_params_nonempty _ _ _ _ _ Lpa Gga)) as [au [Rau Hau]].
    pose proof (r_int0_lk _ _ _ _ _ Rau) as L. rewrite <- G' in L. rewrite La in L. injection L as L.
    rewrite Hau; [lia| rewrite Bf'; lia | rewrite Bf'; rewrite <- L; exact Sz4]. }
  apply andb_prop in I9. destruct I9 as [I9 I9h]. apply andb_prop in I9. destruct I9 as [I9 I9g]. apply andb_prop in I9. destruct I9 as [I9 I9f].
  apply andb_prop in I9. destruct I9 as [I9 I9e]. apply andb_prop in I9. destruct I9 as [I9 I9d]. apply andb_prop in I9. destruct I9 as [I9 I9c].
  apply andb_prop in I9. destruct I9 as [I9a I9b].
  destruct CF as [[vf [Rvf Evf]] _].
  pose proof (r_int0_lk _ _ _ _ _ Rvf) as Lf.
  assert (Efz : fz = vf) by (rewrite <- G' in Rfz; exact (r_int0_det _ _ _ _ _ _ _ Rfz Rvf)).
  assert (Ia : h_nb_analogs (hdr s) = a) by (cbn [opt_eqb] in I6; lia).
  assert (KC : forall g n, (g <> nm_POINT \/ n <> nm_FRAMES) -> lk_count (groups s') g n = lk_count (groups s) g n)
    by (intros g n Hne; apply lk_count_ext, KL, Hne).
  assert (KS : forall g n, (g <> nm_POINT \/ n <> nm_FRAMES) -> lk_strs (groups s') g n = lk_strs (groups s) g n)
    by (intros g n Hne; apply lk_strs_ext, KL, Hne).
  assert (NA : nm_ANALOG <> nm_POINT) by ne.
  unfold Inv, inv_b, inv_report_of.
  cbn [r_points_hdr r_points_frames r_frames_hdr r_frames_stored r_subframes r_analogs_hdr r_analogs_meas r_analogs_frames r_label_counts r_label_order].
  rewrite Lu, La, Fs', Bf', Bf1b, F0. rewrite <- Efs.
  repeat (apply andb_true_intro; split).
  - cbn [opt_eqb]. lia.
  - exact S1.
  - rewrite Lf. cbn [opt_eqb]. rewrite Hfr; [rewrite Efz; apply N.eqb_refl|right; lia].
  - rewrite Lf. cbn [opt_eqb]. rewrite Fs', <- Efs in Evf. lia.
  - exact S2.
  - cbn [opt_eqb]. lia.
  - assert (Ex' : exact (hdr s')).
    { apply Hex.
      - rewrite Hd1. unfold exact. lia.
      - rewrite Hd1, Bf'. lia.
      - intros au Rau. pose proof (r_int0_lk _ _ _ _ _ Rau) as L. rewrite <- G' in L. rewrite La in L. injection L as L. rewrite Bf'. lia. }
    unfold exact in Ex'. lia.
  - exact S3.
  - rewrite (KC nm_POINT nm_LABELS) by (right; ne). exact I9a.
  - rewrite (KC nm_POINT nm_DESCRIPTIONS) by (right; ne). exact I9b.
  - rewrite (KC nm_POINT nm_UNITS) by (right; ne). exact I9c.
  - rewrite (KC nm_ANALOG nm_LABELS) by (left; exact NA). exact I9d.
  - rewrite (KC nm_ANALOG nm_DESCRIPTIONS) by (left; exact NA). exact I9e.
  - rewrite (KC nm_ANALOG nm_SCALE) by (left; exact NA). exact I9f.
  - rewrite (KC nm_ANALOG nm_OFFSET) by (left; exact NA). exact I9g.
  - rewrite (KC nm_ANALOG nm_UNITS) by (left; exact NA). exact I9h.
  - rewrite (KS nm_POINT nm_LABELS) by (right; ne). rewrite Lp. apply strs_eqb_refl.
  - destruct (fr_subs g0) as [|sf0 t] eqn:Es; [reflexivity|]. rewrite (KS nm_ANALOG nm_LABELS) by (left; exact NA).
    rewrite (Lc sf0 t eq_refl). apply strs_eqb_refl.
Qed.

(* ---------- replacing a stored frame (any index below the count) ---------- *)
Lemma strs_eqb_eq : forall a b, strs_eqb a b = true -> a = b.
Proof.
  induction a as [|x a IH]; destruct b as [|y b]; cbn [strs_eqb]; intros H; try discriminate; [reflexivity|].
  apply andb_prop in H. destruct H as [H1 H2]. apply bstr_eqb_eq in H1. subst y. f_equal. apply IH. exact H2.
Qed.
Lemma forallb_filter_replace : forall A (p q : A -> bool) l i x,
  forallb q (filter p l) = true -> (p x = true -> q x = true) -> forallb q (filter p (replace_nth i x l)) = true.
Proof.
  intros A p q l. induction l as [|h t IH]; intros i x H Hx; [destruct i; reflexivity|].
  destruct i as [|i]; cbn [replace_nth filter] in *.
  - destruct (p h); destruct (p x) eqn:Px; cbn [forallb] in *; try (apply andb_prop in H; destruct H as [_ H]); try exact H;
      apply andb_true_intro; (split; [apply Hx; reflexivity|exact H]).
  - destruct (p h); cbn [forallb] in *.
    + apply andb_prop in H. destruct H as [H1 H2]. apply andb_true_intro. split; [exact H1|apply IH; assumption].
    + apply IH; assumption.
Qed.
Lemma replace_nth_length : forall A (l : list A) i x, length (replace_nth i x l) = length l.
Proof. intros A l. induction l as [|h t IH]; intros i x; [destruct i; reflexivity|]. destruct i; cbn [replace_nth length]; [reflexivity|]. rewrite IH. reflexivity. Qed.

Theorem frame_replace_keeps_inv : forall f i s s' f0 ft a,
  Inv s -> MT (groups s) ->
  frames s = f0 :: ft -> fr_subs f0 <> [] ->
  lk_int0 (groups s) nm_ANALOG nm_USED = Some a -> a <> 0 ->
  announced s f ->
  i < nlen (frames s) ->
  nlen (frames s) < 2147483648 -> nlen (fr_pts f0) < 2147483648 -> a < 2147483648 -> a * h_byframe (hdr s) < two64 ->
  api_frame f_key f_tosize f_div f_is_zero f (Some i) s = ROk tt s' ->
  Inv s'.
Proof.
  intros f i s s' f0 ft a HI HM Ef Hsub Ha Ha0 [An1 [An2 An3]] Hi Sz1 Sz2 Sz3 Sz4 H.
  pose proof HI as HI0.
  unfold Inv, inv_b in HI. set (r := inv_report_of s) in HI.
  apply andb_prop in HI. destruct HI as [HI I10]. apply andb_prop in HI. destruct HI as [HI I9]. apply andb_prop in HI. destruct HI as [HI I8].
  apply andb_prop in HI. destruct HI as [HI I7]. apply andb_prop in HI. destruct HI as [HI I6]. apply andb_prop in HI. destruct HI as [HI I5].
  apply andb_prop in HI. destruct HI as [HI I4]. apply andb_prop in HI. destruct HI as [HI I3]. apply andb_prop in HI. destruct HI as [I1 I2].
  unfold r, inv_report_of in I1, I2, I3, I4, I5, I6, I7, I8, I9, I10.
  cbn [r_points_hdr r_points_frames r_frames_hdr r_frames_stored r_subframes r_analogs_hdr r_analogs_meas r_analogs_frames r_label_counts r_label_order] in *.
  rewrite Ha in *.
  assert (F0 : filled f0 = true).
  { unfold filled. destruct (fr_subs f0) as [|x t]; [contradiction|]. unfold nlen. cbn [length]. rewrite Bool.andb_false_r. reflexivity. }
  destruct (lk_int0 (groups s) nm_POINT nm_USED) as [u|] eqn:Eu; [|discriminate].
  assert (I2' := I2). assert (I5' := I5). assert (I8' := I8).
  rewrite Ef in I2', I5', I8', I10. cbn [filter] in I2', I5', I8'. rewrite F0 in I2', I5', I8', I10. cbn [forallb] in I2', I5', I8'.
  apply andb_prop in I2'. destruct I2' as [I2a _]. apply andb_prop in I5'. destruct I5' as [I5a _].
  assert (Bf : h_byframe (hdr s) = nlen (fr_subs f0)) by lia.
  assert (Bf1 : 1 <= h_byframe (hdr s)).
  { rewrite Bf. destruct (fr_subs f0); [contradiction|]. unfold nlen. cbn [length]. lia. }
  assert (Bf1b : (1 <=? h_byframe (hdr s)) = true) by lia.
  rewrite Bf1b in I6, I7, I8, I8'. apply andb_prop in I8'. destruct I8' as [I8a _].
  assert (Ua : u = nlen (fr_pts f0)) by lia.
  assert (Na : nan_of f0 = a).
  { unfold nan_of. destruct (fr_subs f0) as [|sf0 t]; [contradiction|]. cbn [forallb] in I8a. lia. }
  apply andb_prop in I9. destruct I9 as [I9 I9h]. apply andb_prop in I9. destruct I9 as [I9 I9g]. apply andb_prop in I9. destruct I9 as [I9 I9f].
  apply andb_prop in I9. destruct I9 as [I9 I9e]. apply andb_prop in I9. destruct I9 as [I9 I9d]. apply andb_prop in I9. destruct I9 as [I9 I9c].
  apply andb_prop in I9. destruct I9 as [I9a I9b].
  apply andb_prop in I10. destruct I10 as [I10a I10b].
  assert (Pf : nlen (fr_pts f) = u).
  { pose proof (lk_strs_count _ _ _ _ An1) as C. rewrite C in I9a. cbn [opt_eqb] in I9a. unfold nlen in *. rewrite map_length in I9a. lia. }
  assert (Cf : forall sf, In sf (fr_subs f) -> nlen sf = a).
  { intros sf Hin. pose proof (lk_strs_count _ _ _ _ (An3 sf Hin)) as C. rewrite C in I9d. cbn [opt_eqb] in I9d. unfold nlen in *. rewrite map_length in I9d. lia. }
  assert (Fsub : fr_subs f <> []) by (intros E; rewrite E in An2; unfold nlen in An2; cbn [length] in An2; lia).
  assert (Lp0 : lk_strs (groups s) nm_POINT nm_LABELS = Some (map pt_name (fr_pts f0))).
  { destruct (lk_strs (groups s) nm_POINT nm_LABELS) as [l|]; [|discriminate]. apply strs_eqb_eq in I10a. rewrite I10a. reflexivity. }
  assert (Lc0 : forall sf0 t, fr_subs f0 = sf0 :: t -> lk_strs (groups s) nm_ANALOG nm_LABELS = Some (map ch_name sf0)).
  { intros sf0 t E. rewrite E in I10b. destruct (lk_strs (groups s) nm_ANALOG nm_LABELS) as [l|]; [|discriminate]. apply strs_eqb_eq in I10b. rewrite I10b. reflexivity. }
  (* the store *)
  set (k := N.to_nat i).
  assert (P : put empty_frame (frames s) f (Some i) = Ok (replace_nth k f (frames s))).
  { unfold put. assert (E : (i <? nlen (frames s)) = true) by lia. rewrite E. reflexivity. }
  assert (Q2 : forallb (fun x => nlen (fr_pts x) =? u) (filter filled (replace_nth k f (frames s))) = true)
    by (apply forallb_filter_replace; [exact I2|intros _; lia]).
  assert (Q5 : forallb (fun x => nlen (fr_subs x) =? h_byframe (hdr s)) (filter filled (replace_nth k f (frames s))) = true)
    by (apply forallb_filter_replace; [exact I5|intros _; lia]).
  assert (Q8 : forallb (fun x => forallb (fun sf : subframe => nlen sf =? a) (fr_subs x)) (filter filled (replace_nth k f (frames s))) = true).
  { apply forallb_filter_replace; [exact I8|]. intros _. apply forallb_forall. intros sf Hin. specialize (Cf sf Hin). lia. }
  assert (Ln : nlen (replace_nth k f (frames s)) < 2147483648) by (unfold nlen in *; rewrite replace_nth_length; exact Sz1).
  destruct k as [|k'] eqn:Ek.
  - (* frame 0 is replaced: the new frame becomes the reference *)
    apply (frame_call_keeps_inv f (Some i) s s' (replace_nth 0 f (frames s)) f ft u a HI0 HM P Eu Ha Ha0 Bf1); try assumption.
    + rewrite Ef. reflexivity.
    + unfold nan_of. destruct (fr_subs f) as [|sf0 t]; [contradiction|]. apply Cf. left. reflexivity.
    + intros sf0 t E. apply An3. rewrite E. left. reflexivity.
    + lia.
  - apply (frame_call_keeps_inv f (Some i) s s' (replace_nth (S k') f (frames s)) f0 (replace_nth k' f ft) u a HI0 HM P Eu Ha Ha0 Bf1); try assumption.
    + rewrite Ef. reflexivity.
    + lia.
    + lia.
    + lia.
Qed.

(* ---------- extending the data set: frame(f, i) with i at or beyond the count leaves unfilled frames in between ---------- *)
Lemma filter_filled_repeat_empty : forall k, filter filled (repeat empty_frame k) = [].
Proof. induction k as [|k IH]; [reflexivity|]. cbn [repeat filter]. exact IH. Qed.

Theorem frame_extend_keeps_inv : forall f i s s' f0 ft a,
  Inv s -> MT (groups s) ->
  frames s = f0 :: ft -> fr_subs f0 <> [] ->
  lk_int0 (groups s) nm_ANALOG nm_USED = Some a -> a <> 0 ->
  announced s f ->
  nlen (frames s) <= i -> i + 1 < 2147483648 ->
  nlen (fr_pts f0) < 2147483648 -> a < 2147483648 -> a * h_byframe (hdr s) < two64 ->
  api_frame f_key f_tosize f_div f_is_zero f (Some i) s = ROk tt s' ->
  Inv s'.
Proof.
  intros f i s s' f0 ft a HI HM Ef Hsub Ha Ha0 [An1 [An2 An3]] Hi Sz1 Sz2 Sz3 Sz4 H.
  pose proof HI as HI0.
  unfold Inv, inv_b in HI. set (r := inv_report_of s) in HI.
  apply andb_prop in HI. destruct HI as [HI I10]. apply andb_prop in HI. destruct HI as [HI I9]. apply andb_prop in HI. destruct HI as [HI I8].
  apply andb_prop in HI. destruct HI as [HI I7]. apply andb_prop in HI. destruct HI as [HI I6]. apply andb_prop in HI. destruct HI as [HI I5].
  apply andb_prop in HI. destruct HI as [HI I4]. apply andb_prop in HI. destruct HI as [HI I3]. apply andb_prop in HI. destruct HI as [I1 I2].
  unfold r, inv_report_of in I1, I2, I3, I4, I5, I6, I7, I8, I9, I10.
  cbn [r_points_hdr r_points_frames r_frames_hdr r_frames_stored r_subframes r_analogs_hdr r_analogs_meas r_analogs_frames r_label_counts r_label_order] in *.
  rewrite Ha in *.
  assert (F0 : filled f0 = true).
  { unfold filled. destruct (fr_subs f0) as [|x t]; [contradiction|]. unfold nlen. cbn [length]. rewrite Bool.andb_false_r. reflexivity. }
  destruct (lk_int0 (groups s) nm_POINT nm_USED) as [u|] eqn:Eu; [|discriminate].
  assert (I2' := I2). assert (I5' := I5). assert (I8' := I8).
  rewrite Ef in I2', I5', I8', I10. cbn [filter] in I2', I5', I8'. rewrite F0 in I2', I5', I8', I10. cbn [forallb] in I2', I5', I8'.
  apply andb_prop in I2'. destruct I2' as [I2a _]. apply andb_prop in I5'. destruct I5' as [I5a _].
  assert (Bf : h_byframe (hdr s) = nlen (fr_subs f0)) by lia.
  assert (Bf1 : 1 <= h_byframe (hdr s)).
  { rewrite Bf. destruct (fr_subs f0); [contradiction|]. unfold nlen. cbn [length]. lia. }
  assert (Bf1b : (1 <=? h_byframe (hdr s)) = true) by lia.
  rewrite Bf1b in I6, I7, I8, I8'. apply andb_prop in I8'. destruct I8' as [I8a _].
  assert (Ua : u = nlen (fr_pts f0)) by lia.
  assert (Na : nan_of f0 = a).
  { unfold nan_of. destruct (fr_subs f0) as [|sf0 t]; [contradiction|]. cbn [forallb] in I8a. lia. }
  apply andb_prop in I9. destruct I9 as [I9 I9h]. apply andb_prop in I9. destruct I9 as [I9 I9g]. apply andb_prop in I9. destruct I9 as [I9 I9f].
  apply andb_prop in I9. destruct I9 as [I9 I9e]. apply andb_prop in I9. destruct I9 as [I9 I9d]. apply andb_prop in I9. destruct I9 as [I9 I9c].
  apply andb_prop in I9. destruct I9 as [I9a I9b].
  apply andb_prop in I10. destruct I10 as [I10a I10b].
  assert (Pf : nlen (fr_pts f) = u).
  { pose proof (lk_strs_count _ _ _ _ An1) as C. rewrite C in I9a. cbn [opt_eqb] in I9a. unfold nlen in *. rewrite map_length in I9a. lia. }
  assert (Cf : forall sf, In sf (fr_subs f) -> nlen sf = a).
  { intros sf Hin. pose proof (lk_strs_count _ _ _ _ (An3 sf Hin)) as C. rewrite C in I9d. cbn [opt_eqb] in I9d. unfold nlen in *. rewrite map_length in I9d. lia. }
  assert (Lp0 : lk_strs (groups s) nm_POINT nm_LABELS = Some (map pt_name (fr_pts f0))).
  { destruct (lk_strs (groups s) nm_POINT nm_LABELS) as [l|]; [|discriminate]. apply strs_eqb_eq in I10a. rewrite I10a. reflexivity. }
  assert (Lc0 : forall sf0 t, fr_subs f0 = sf0 :: t -> lk_strs (groups s) nm_ANALOG nm_LABELS = Some (map ch_name sf0)).
  { intros sf0 t E. rewrite E in I10b. destruct (lk_strs (groups s) nm_ANALOG nm_LABELS) as [l|]; [|discriminate]. apply strs_eqb_eq in I10b. rewrite I10b. reflexivity. }
  set (k := N.to_nat (i - nlen (frames s))).
  set (fs' := frames s ++ repeat empty_frame k ++ [f]).
  assert (P : put empty_frame (frames s) f (Some i) = Ok fs').
  { unfold put. assert (E1 : (i <? nlen (frames s)) = false) by lia. rewrite E1.
    assert (E2 : (i =? size_max) = false) by (unfold size_max; lia). rewrite E2.
    assert (E3 : (2305843009213693951 <? i) = false) by lia. rewrite E3. reflexivity. }
  assert (FF : filter filled fs' = filter filled (frames s) ++ filter filled [f]).
  { unfold fs'. rewrite !filter_app, filter_filled_repeat_empty. reflexivity. }
  assert (Q2 : forallb (fun x => nlen (fr_pts x) =? u) (filter filled fs') = true).
  { rewrite FF, forallb_app, I2. cbn [filter]. destruct (filled f); cbn [forallb andb]; [lia|reflexivity]. }
  assert (Q5 : forallb (fun x => nlen (fr_subs x) =? h_byframe (hdr s)) (filter filled fs') = true).
  { rewrite FF, forallb_app, I5. cbn [filter]. destruct (filled f); cbn [forallb andb]; [lia|reflexivity]. }
  assert (Q8 : forallb (fun x => forallb (fun sf : subframe => nlen sf =? a) (fr_subs x)) (filter filled fs') = true).
  { rewrite FF, forallb_app. apply andb_true_intro. split; [exact I8|]. cbn [filter]. destruct (filled f); cbn [forallb andb]; [|reflexivity]. rewrite andb_true_r.
    apply forallb_forall. intros sf Hin. specialize (Cf sf Hin). lia. }
  assert (Ln : nlen fs' < 2147483648).
  { unfold fs', nlen in *. rewrite !app_length, repeat_length. cbn [length]. unfold k. lia. }
  apply (frame_call_keeps_inv f (Some i) s s' fs' f0 (ft ++ repeat empty_frame k ++ [f]) u a HI0 HM P Eu Ha Ha0 Bf1); try assumption.
  - unfold fs'. rewrite Ef. reflexivity.
  - lia.
  - lia.
  - lia.
Qed.

(* ---------- every index at once ---------- *)
Theorem frame_any_index_keeps_inv : forall f idx s s' f0 ft a,
  Inv s -> MT (groups s) ->
  frames s = f0 :: ft -> fr_subs f0 <> [] ->
  lk_int0 (groups s) nm_ANALOG nm_USED = Some a -> a <> 0 ->
  announced s f ->
  nlen (frames s) + 1 < 2147483648 -> (forall i, idx = Some i -> i + 1 < 2147483648) ->
  nlen (fr_pts f0) < 2147483648 -> a < 2147483648 -> a * h_byframe (hdr s) < two64 ->
  api_frame f_key f_tosize f_div f_is_zero f idx s = ROk tt s' ->
  Inv s'.
Proof.
  intros f idx s s' f0 ft a HI HM Ef Hsub Ha Ha0 An Sz0 Szi Sz2 Sz3 Sz4 H.
  destruct idx as [i|].
  - specialize (Szi i eq_refl). destruct (N.ltb_spec i (nlen (frames s))) as [Lt|Ge].
    + apply (frame_replace_keeps_inv f i s s' f0 ft a); try assumption. lia.
    + apply (frame_extend_keeps_inv f i s s' f0 ft a); assumption.
  - apply (frame_append_keeps_inv f s s' f0 ft a); assumption.
Qed.

(* ---------- a whole recording: any number of frames appended one after the other (induction over the calls) ---------- *)
Fixpoint run_frames (fs : list frame) (s : state) : res state unit :=
  match fs with
  | [] => ROk tt s
  | f :: t => match api_frame f_key f_tosize f_div f_is_zero f None s with ROk _ s1 => run_frames t s1 | r => r end
  end.

(* what the next call needs from the previous one *)
Lemma frame_append_carries : forall f s s' f0 ft a,
  Inv s -> MT (groups s) -> frames s = f0 :: ft -> fr_subs f0 <> [] ->
  lk_int0 (groups s) nm_ANALOG nm_USED = Some a -> a <> 0 -> announced s f ->
  nlen (frames s) + 1 < 2147483648 -> nlen (fr_pts f0) < 2147483648 -> a < 2147483648 -> a * h_byframe (hdr s) < two64 ->
  api_frame f_key f_tosize f_div f_is_zero f None s = ROk tt s' ->
  Inv s' /\ MT (groups s') /\ frames s' = f0 :: (ft ++ [f]) /\ lk_int0 (groups s') nm_ANALOG nm_USED = Some a /\
  h_byframe (hdr s') = h_byframe (hdr s) /\ (forall g, announced s g -> announced s' g).
Proof.
  intros f s s' f0 ft a HI HM Ef Hsub Ha Ha0 An Sz1 Sz2 Sz3 Sz4 H.
  pose proof (frame_append_keeps_inv f s s' f0 ft a HI HM Ef Hsub Ha Ha0 An Sz1 Sz2 Sz3 Sz4 H) as HI'.
  (* counts of s, the way the updaters read them *)
  assert (F0 : filled f0 = true).
  { unfold filled. destruct (fr_subs f0) as [|x t]; [contradiction|]. unfold nlen. cbn [length]. rewrite Bool.andb_false_r. reflexivity. }
  assert (Q : exists u, lk_int0 (groups s) nm_POINT nm_USED = Some u /\ u = nlen (fr_pts f0) /\ nan_of f0 = a /\ h_byframe (hdr s) = nlen (fr_subs f0)).
  { pose proof HI as HI0. unfold Inv, inv_b in HI0. set (r := inv_report_of s) in HI0.
    apply andb_prop in HI0. destruct HI0 as [HI0 _]. apply andb_prop in HI0. destruct HI0 as [HI0 _]. apply andb_prop in HI0. destruct HI0 as [HI0 I8].
    apply andb_prop in HI0. destruct HI0 as [HI0 _]. apply andb_prop in HI0. destruct HI0 as [HI0 _]. apply andb_prop in HI0. destruct HI0 as [HI0 I5].
    apply andb_prop in HI0. destruct HI0 as [HI0 _]. apply andb_prop in HI0. destruct HI0 as [HI0 _]. apply andb_prop in HI0. destruct HI0 as [_ I2].
    unfold r, inv_report_of in I2, I5, I8. cbn [r_points_frames r_subframes r_analogs_frames] in I2, I5, I8.
    rewrite Ha, Ef in *. cbn [filter] in I2, I5, I8. rewrite F0 in I2, I5, I8. cbn [forallb] in I2, I5, I8.
    destruct (lk_int0 (groups s) nm_POINT nm_USED) as [u|]; [|discriminate]. exists u. split; [reflexivity|].
    apply andb_prop in I2. destruct I2 as [I2a _]. apply andb_prop in I5. destruct I5 as [I5a _].
    assert (Bf : h_byframe (hdr s) = nlen (fr_subs f0)) by lia.
    assert (Bf1 : (1 <=? h_byframe (hdr s)) = true) by (rewrite Bf; destruct (fr_subs f0); [contradiction|unfold nlen; cbn [length]; lia]).
    rewrite Bf1 in I8. apply andb_prop in I8. destruct I8 as [I8a _].
    split; [lia|]. split; [|exact Bf]. unfold nan_of. destruct (fr_subs f0) as [|sf0 t]; [contradiction|]. cbn [forallb] in I8a. lia. }
  destruct Q as [u [Eu [Ua [Na Bf]]]].
  set (fs' := frames s ++ [f]).
  assert (P : put empty_frame (frames s) f None = Ok fs') by reflexivity.
  destruct (lk_int0_r 0 _ _ _ _ Eu) as [vu [Rvu Evu]]. destruct (lk_int0_r 0 _ _ _ _ Ha) as [va [Rva Eva]].
  assert (CA : counts_agree (set_frames s fs')).
  { unfold counts_agree, fs'. cbn [frames set_frames groups]. rewrite Ef. cbn [app]. split.
    - exists vu. split; [exact Rvu|lia].
    - exists va. split; [exact Rva|lia]. }
  assert (Sm : forall fs'', put empty_frame (frames s) f None = Ok fs'' -> small_frames fs'').
  { intros fs'' E. rewrite P in E. injection E as <-. unfold small_frames, fs'. rewrite Ef. cbn [app]. rewrite Ef in Sz1.
    split; [unfold nlen in *; cbn [length] in *; rewrite app_length; cbn [length]; lia|]. split; [exact Sz2|rewrite Na; exact Sz3]. }
  destruct (api_frame_counts f_key f_tosize f_div f_is_zero f_key_nt f_tosize_nt f None s s' HM Sm H) as [HM' _].
  pose proof (api_frame_keeps_parameters f_key f_tosize f_div f_is_zero f None s s' H
                (fun fs'' E => ltac:(rewrite P in E; injection E as <-; exact CA))) as KL.
  pose proof (api_frame_store f_key f_tosize f_div f_is_zero f None s s' ltac:(intros i E; discriminate) H) as St.
  cbn [store_spec] in St. rewrite Ef in St. cbn [app] in St.
  assert (NA : nm_ANALOG <> nm_POINT) by ne.
  assert (La : lk_int0 (groups s') nm_ANALOG nm_USED = Some a).
  { rewrite (lk_int0_ext (groups s) (groups s') nm_ANALOG nm_USED (KL nm_ANALOG nm_USED (or_introl NA))). exact Ha. }
  assert (Bf' : h_byframe (hdr s') = h_byframe (hdr s)).
  { pose proof HI' as HI0. unfold Inv, inv_b in HI0. set (r := inv_report_of s') in HI0.
    apply andb_prop in HI0. destruct HI0 as [HI0 _]. apply andb_prop in HI0. destruct HI0 as [HI0 _]. apply andb_prop in HI0. destruct HI0 as [HI0 _].
    apply andb_prop in HI0. destruct HI0 as [HI0 _]. apply andb_prop in HI0. destruct HI0 as [HI0 _]. apply andb_prop in HI0. destruct HI0 as [_ I5].
    unfold r, inv_report_of in I5. cbn [r_subframes] in I5. rewrite St in I5. cbn [filter] in I5. rewrite F0 in I5. cbn [forallb] in I5.
    apply andb_prop in I5. destruct I5 as [I5a _]. lia. }
  split; [exact HI'|]. split; [exact HM'|]. split; [exact St|]. split; [exact La|]. split; [exact Bf'|].
  intros g [G1 [G2 G3]]. assert (N1 : nm_LABELS <> nm_FRAMES) by ne. split; [|split].
  - rewrite (lk_strs_ext (groups s) (groups s') nm_POINT nm_LABELS (KL nm_POINT nm_LABELS (or_intror N1))). exact G1.
  - rewrite Bf'. exact G2.
  - intros sf Hin. rewrite (lk_strs_ext (groups s) (groups s') nm_ANALOG nm_LABELS (KL nm_ANALOG nm_LABELS (or_introl NA))). exact (G3 sf Hin).
Qed.

Theorem frames_session_keeps_inv : forall fs s s' f0 ft a,
  Inv s -> MT (groups s) -> frames s = f0 :: ft -> fr_subs f0 <> [] ->
  lk_int0 (groups s) nm_ANALOG nm_USED = Some a -> a <> 0 -> Forall (announced s) fs ->
  nlen (frames s) + nlen fs < 2147483648 -> nlen (fr_pts f0) < 2147483648 -> a < 2147483648 -> a * h_byframe (hdr s) < two64 ->
  run_frames fs s = ROk tt s' ->
  Inv s' /\ frames s' = frames s ++ fs.
Proof.
  induction fs as [|f t IH]; intros s s' f0 ft a HI HM Ef Hsub Ha Ha0 An Sz1 Sz2 Sz3 Sz4 H.
  - cbn [run_frames] in H. injection H as <-. rewrite app_nil_r. split; [exact HI|reflexivity].
  - cbn [run_frames] in H. destruct (api_frame f_key f_tosize f_div f_is_zero f None s) as [[] s1| |] eqn:E; try discriminate.
    apply Forall_cons_iff in An. destruct An as [Anf Ant].
    assert (Sz1' : nlen (frames s) + 1 < 2147483648) by (unfold nlen in *; cbn [length] in Sz1; lia).
    destruct (frame_append_carries f s s1 f0 ft a HI HM Ef Hsub Ha Ha0 Anf Sz1' Sz2 Sz3 Sz4 E) as (HI1 & HM1 & St1 & La1 & Bf1 & Car).
    destruct (IH s1 s' f0 (ft ++ [f]) a HI1 HM1 St1 Hsub La1 Ha0) as [HI' Fr']; try assumption.
    + apply Forall_forall. intros g Hg. apply Car. rewrite Forall_forall in Ant. exact (Ant g Hg).
    + rewrite St1. rewrite Ef in Sz1. unfold nlen in *. cbn [length] in *. rewrite app_length. cbn [length]. lia.
    + rewrite Bf1. exact Sz4.
    + split; [exact HI'|]. rewrite Fr', St1, Ef. cbn [app]. rewrite <- app_assoc. reflexivity.
Qed.

(* ---------- the FIRST frame of a declared, still empty data set ---------- *)
Theorem frame_first_keeps_inv : forall f s s' a,
  Inv s -> MT (groups s) -> frames s = [] ->
  lk_int0 (groups s) nm_ANALOG nm_USED = Some a -> a <> 0 -> 1 <= h_byframe (hdr s) ->
  announced s f ->
  nlen (fr_pts f) < 2147483648 -> a < 2147483648 -> a * h_byframe (hdr s) < two64 ->
  api_frame f_key f_tosize f_div f_is_zero f None s = ROk tt s' ->
  Inv s' /\ frames s' = [f].
Proof.
  intros f s s' a HI HM Ef Ha Ha0 Bf1 [An1 [An2 An3]] Sz2 Sz3 Sz4 H.
  pose proof HI as HI0.
  unfold Inv, inv_b in HI. set (r := inv_report_of s) in HI.
  apply andb_prop in HI. destruct HI as [HI _]. apply andb_prop in HI. destruct HI as [HI I9]. apply andb_prop in HI. destruct HI as [HI _].
  apply andb_prop in HI. destruct HI as [HI _]. apply andb_prop in HI. destruct HI as [HI _]. apply andb_prop in HI. destruct HI as [HI _].
  apply andb_prop in HI. destruct HI as [HI _]. apply andb_prop in HI. destruct HI as [HI _]. apply andb_prop in HI. destruct HI as [I1 _].
  unfold r, inv_report_of in I1, I9. cbn [r_points_hdr r_label_counts] in I1, I9. rewrite Ha in I9.
  destruct (lk_int0 (groups s) nm_POINT nm_USED) as [u|] eqn:Eu; [|discriminate].
  apply andb_prop in I9. destruct I9 as [I9 _]. apply andb_prop in I9. destruct I9 as [I9 _]. apply andb_prop in I9. destruct I9 as [I9 _].
  apply andb_prop in I9. destruct I9 as [I9 _]. apply andb_prop in I9. destruct I9 as [I9 I9d]. apply andb_prop in I9. destruct I9 as [I9 _].
  apply andb_prop in I9. destruct I9 as [I9a _].
  assert (Pf : nlen (fr_pts f) = u).
  { pose proof (lk_strs_count _ _ _ _ An1) as C. rewrite C in I9a. cbn [opt_eqb] in I9a. unfold nlen in *. rewrite map_length in I9a. lia. }
  assert (Cf : forall sf, In sf (fr_subs f) -> nlen sf = a).
  { intros sf Hin. pose proof (lk_strs_count _ _ _ _ (An3 sf Hin)) as C. rewrite C in I9d. cbn [opt_eqb] in I9d. unfold nlen in *. rewrite map_length in I9d. lia. }
  assert (Fsub : fr_subs f <> []) by (intros E; rewrite E in An2; unfold nlen in An2; cbn [length] in An2; lia).
  assert (Ff : filled f = true).
  { unfold filled. destruct (fr_subs f) as [|x t]; [contradiction|]. unfold nlen. cbn [length]. rewrite Bool.andb_false_r. reflexivity. }
  assert (P : put empty_frame (frames s) f None = Ok [f]) by (rewrite Ef; reflexivity).
  split.
  - apply (frame_call_keeps_inv f None s s' [f] f [] u a HI0 HM P Eu Ha Ha0 Bf1); try assumption; try reflexivity.
    + unfold nan_of. destruct (fr_subs f) as [|sf0 t]; [contradiction|]. apply Cf. left. reflexivity.
    + intros sf0 t E. apply An3. rewrite E. left. reflexivity.
    + cbn [filter]. rewrite Ff. cbn [forallb]. rewrite andb_true_r. lia.
    + cbn [filter]. rewrite Ff. cbn [forallb]. rewrite andb_true_r. lia.
    + cbn [filter]. rewrite Ff. cbn [forallb]. rewrite andb_true_r. apply forallb_forall. intros sf Hin. specialize (Cf sf Hin). lia.
    + lia.
  - pose proof (api_frame_store f_key f_tosize f_div f_is_zero f None s s' ltac:(intros i E; discriminate) H) as St.
    cbn [store_spec] in St. rewrite Ef in St. exact St.
Qed.

(* from the declared, empty object to the end of the recording *)
Theorem recording_from_empty_keeps_inv : forall f fs s s' a,
  Inv s -> MT (groups s) -> frames s = [] ->
  lk_int0 (groups s) nm_ANALOG nm_USED = Some a -> a <> 0 -> 1 <= h_byframe (hdr s) ->
  Forall (announced s) (f :: fs) ->
  1 + nlen fs < 2147483648 -> nlen (fr_pts f) < 2147483648 -> a < 2147483648 -> a * h_byframe (hdr s) < two64 ->
  run_frames (f :: fs) s = ROk tt s' ->
  Inv s' /\ frames s' = f :: fs.
Proof.
  intros f fs s s' a HI HM Ef Ha Ha0 Bf1 An Sz1 Sz2 Sz3 Sz4 H.
  apply Forall_cons_iff in An. destruct An as [Anf Ant].
  cbn [run_frames] in H. destruct (api_frame f_key f_tosize f_div f_is_zero f None s) as [[] s1| |] eqn:E; try discriminate.
  destruct (frame_first_keeps_inv f s s1 a HI HM Ef Ha Ha0 Bf1 Anf Sz2 Sz3 Sz4 E) as [HI1 St1].
  (* what the remaining calls need: the parameters and the sub-frame count are those of s *)
  destruct Anf as [An1 [An2 An3]].
  assert (Fsub : fr_subs f <> []) by (intros X; rewrite X in An2; unfold nlen in An2; cbn [length] in An2; lia).
  assert (Ff : filled f = true).
  { unfold filled. destruct (fr_subs f) as [|x t]; [contradiction|]. unfold nlen. cbn [length]. rewrite Bool.andb_false_r. reflexivity. }
  (* counts_agree for the store, as in the other proofs *)
  assert (Q : exists u, lk_int0 (groups s) nm_POINT nm_USED = Some u /\ nlen (fr_pts f) = u /\ nan_of f = a).
  { pose proof HI as HI0. unfold Inv, inv_b in HI0. set (r := inv_report_of s) in HI0.
    apply andb_prop in HI0. destruct HI0 as [HI0 _]. apply andb_prop in HI0. destruct HI0 as [HI0 I9]. apply andb_prop in HI0. destruct HI0 as [HI0 _].
    apply andb_prop in HI0. destruct HI0 as [HI0 _]. apply andb_prop in HI0. destruct HI0 as [HI0 _]. apply andb_prop in HI0. destruct HI0 as [HI0 _].
    apply andb_prop in HI0. destruct HI0 as [HI0 _]. apply andb_prop in HI0. destruct HI0 as [HI0 _]. apply andb_prop in HI0. destruct HI0 as [I1 _].
    unfold r, inv_report_of in I1, I9. cbn [r_points_hdr r_label_counts] in I1, I9. rewrite Ha in I9.
    destruct (lk_int0 (groups s) nm_POINT nm_USED) as [u|]; [|discriminate]. exists u. split; [reflexivity|].
    apply andb_prop in I9. destruct I9 as [I9 _]. apply andb_prop in I9. destruct I9 as [I9 _]. apply andb_prop in I9. destruct I9 as [I9 _].
    apply andb_prop in I9. destruct I9 as [I9 _]. apply andb_prop in I9. destruct I9 as [I9 I9d]. apply andb_prop in I9. destruct I9 as [I9 _].
    apply andb_prop in I9. destruct I9 as [I9a _]. split.
    - pose proof (lk_strs_count _ _ _ _ An1) as C. rewrite C in I9a. cbn [opt_eqb] in I9a. unfold nlen in *. rewrite map_length in I9a. lia.
    - unfold nan_of. destruct (fr_subs f) as [|sf0 t]; [contradiction|].
      pose proof (lk_strs_count _ _ _ _ (An3 sf0 (or_introl eq_refl))) as C. rewrite C in I9d. cbn [opt_eqb] in I9d. unfold nlen in *. rewrite map_length in I9d. lia. }
  destruct Q as [u [Eu [Pf Na]]].
  destruct (lk_int0_r 0 _ _ _ _ Eu) as [vu [Rvu Evu]]. destruct (lk_int0_r 0 _ _ _ _ Ha) as [va [Rva Eva]].
  assert (P : put empty_frame (frames s) f None = Ok [f]) by (rewrite Ef; reflexivity).
  assert (CA : counts_agree (set_frames s [f])).
  { unfold counts_agree. cbn [frames set_frames groups]. split; [exists vu; split; [exact Rvu|lia]|exists va; split; [exact Rva|lia]]. }
  assert (Sm : forall fs'', put empty_frame (frames s) f None = Ok fs'' -> small_frames fs'').
  { intros fs'' X. rewrite P in X. injection X as <-. unfold small_frames. split; [unfold nlen; cbn [length]; lia|]. split; [exact Sz2|rewrite Na; exact Sz3]. }
  destruct (api_frame_counts f_key f_tosize f_div f_is_zero f_key_nt f_tosize_nt f None s s1 HM Sm E) as [HM1 _].
  pose proof (api_frame_keeps_parameters f_key f_tosize f_div f_is_zero f None s s1 E
                (fun fs'' X => ltac:(rewrite P in X; injection X as <-; exact CA))) as KL.
  assert (NA : nm_ANALOG <> nm_POINT) by ne. assert (N1 : nm_LABELS <> nm_FRAMES) by ne.
  assert (La1 : lk_int0 (groups s1) nm_ANALOG nm_USED = Some a).
  { rewrite (lk_int0_ext (groups s) (groups s1) nm_ANALOG nm_USED (KL nm_ANALOG nm_USED (or_introl NA))). exact Ha. }
  assert (Bf' : h_byframe (hdr s1) = h_byframe (hdr s)).
  { pose proof HI1 as HI0. unfold Inv, inv_b in HI0. set (r := inv_report_of s1) in HI0.
    apply andb_prop in HI0. destruct HI0 as [HI0 _]. apply andb_prop in HI0. destruct HI0 as [HI0 _]. apply andb_prop in HI0. destruct HI0 as [HI0 _].
    apply andb_prop in HI0. destruct HI0 as [HI0 _]. apply andb_prop in HI0. destruct HI0 as [HI0 _]. apply andb_prop in HI0. destruct HI0 as [_ I5].
    unfold r, inv_report_of in I5. cbn [r_subframes] in I5. rewrite St1 in I5. cbn [filter] in I5. rewrite Ff in I5. cbn [forallb] in I5.
    apply andb_prop in I5. destruct I5 as [I5a _]. lia. }
  destruct (frames_session_keeps_inv fs s1 s' f [] a HI1 HM1 St1 Fsub La1 Ha0) as [HI' Fr']; try assumption.
  - apply Forall_forall. intros g Hg. rewrite Forall_forall in Ant. destruct (Ant g Hg) as [G1 [G2 G3]]. split; [|split].
    + rewrite (lk_strs_ext (groups s) (groups s1) nm_POINT nm_LABELS (KL nm_POINT nm_LABELS (or_intror N1))). exact G1.
    + rewrite Bf'. exact G2.
    + intros sf Hin. rewrite (lk_strs_ext (groups s) (groups s1) nm_ANALOG nm_LABELS (KL nm_ANALOG nm_LABELS (or_introl NA))). exact (G3 sf Hin).
  - rewrite St1. unfold nlen in *. cbn [length]. lia.
  - rewrite Bf'. exact Sz4.
  - split; [exact HI'|]. rewrite Fr', St1. reflexivity.
Qed.
End WithOps.
