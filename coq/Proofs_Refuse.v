(* Proofs_Refuse.v — a refused call leaves the object unchanged (C10). *)
From Coq Require Import Lia.
From EZ Require Import Base Types Api Proofs_Lookup Proofs_Monad Proofs_Param Proofs_Store Proofs_Guards.
Local Open Scope N_scope.

Section WithOps.
Variable f_key : f32 -> outcome Z.
Variable f_tosize : f32 -> outcome N.
Variable f_div : f32 -> f32 -> f32.
Variable f_is_zero : f32 -> bool.

(* unnamed / untyped parameter: refused before anything is touched (no group is created) *)
Lemma api_parameter_unnamed : forall g p s, p_name p = [] ->
  api_parameter f_key f_tosize f_div g p s = RThrow InvalidArgument s.
Proof. intros g p s H. unfold api_parameter. rewrite H. reflexivity. Qed.

Lemma api_parameter_untyped : forall g p s, p_name p <> [] -> p_type p = TNone ->
  api_parameter f_key f_tosize f_div g p s = RThrow RuntimeError s.
Proof.
  intros g p s Hn Ht. unfold api_parameter.
  destruct (bstr_eqb (p_name p) []) eqn:E; [apply bstr_eqb_eq in E; contradiction|].
  cbv [bind ret]. rewrite Ht. reflexivity.
Qed.

(* frame(): a refusal by a guard, or by the vector (index beyond capacity), returns the object as it was *)
Lemma api_frame_guard_refusal : forall f idx s e,
  frame_guard f_is_zero (groups s) (hdr s) f = Throw e ->
  api_frame f_key f_tosize f_div f_is_zero f idx s = RThrow e s.
Proof. intros f idx s e H. rewrite api_frame_factor, H. reflexivity. Qed.

Lemma api_frame_capacity_refusal : forall f i s,
  frame_guard f_is_zero (groups s) (hdr s) f = Ok tt ->
  nlen (frames s) <= i -> max_index < i -> i <> size_max ->
  api_frame f_key f_tosize f_div f_is_zero f (Some i) s = RThrow LengthError s.
Proof.
  intros f i s Hg H1 H2 H3. rewrite api_frame_factor, Hg. unfold store_and_update.
  cbv [bind getS]. rewrite (put_too_far _ empty_frame (frames s) f i H1 H2 H3). reflexivity.
Qed.

(* every way frame() can throw: either the object is as it was, or the guards and the store succeeded
   and it is one of the updaters that threw on the new frame sequence *)
Lemma api_frame_throw_cases : forall f idx s e s',
  api_frame f_key f_tosize f_div f_is_zero f idx s = RThrow e s' ->
  s' = s \/
  (frame_guard f_is_zero (groups s) (hdr s) f = Ok tt /\
   exists fs, put empty_frame (frames s) f idx = Ok fs /\
              update_parameters f_key f_tosize f_div [] [] (set_frames s fs) = RThrow e s').
Proof.
  intros f idx s e s' H. rewrite api_frame_factor in H.
  destruct (frame_guard f_is_zero (groups s) (hdr s) f) as [[]|x|t] eqn:G.
  - unfold store_and_update in H. cbv [bind getS] in H.
    destruct (put empty_frame (frames s) f idx) as [fs|x|t] eqn:P; cbn [lift] in H.
    + right. split; [reflexivity|]. exists fs. split; [reflexivity|].
      cbv [putS] in H. exact H.
    + left. injection H as _ <-. reflexivity.
    + discriminate.
  - left. injection H as _ <-. reflexivity.
  - discriminate.
Qed.

(* point(frames): a refusal by the documented guards returns the object as it was *)
Lemma api_point_col_refusal : forall news s labels x,
  r_strs (groups s) nm_POINT nm_LABELS = Ok labels ->
  (forall n n0, nth_error news 0 = Some n0 -> In n news -> nlen (fr_pts n0) <= nlen (fr_pts n)) ->
  doc_pointcol (nlen (frames s)) labels news = Some x ->
  api_point_col f_key f_tosize f_div news s = RThrow x s.
Proof. intros news s labels x Hl Hu Hd. rewrite (api_point_col_doc _ _ _ news s labels Hl Hu), Hd. reflexivity. Qed.

End WithOps.
