(* Proofs_InvDeclare.v — C05: declaring points and channels before any frame exists keeps the whole agreement predicate.
   point(name) / analog(name) on a frame-less object run updateParameters([name], []) / ([], [name]); Proofs_Declare gives
   every parameter the predicate reads afterwards, Proofs_Header gives the header; here the ten components are assembled.
   Also: the updater leaves header, frames and prologue alone until its closing updateHeader (update_parameters_from). *)
From Coq Require Import Lia ZifyNat ZifyN ZifyBool Bool.
From EZ Require Import Base Types Api Proofs_Monad Proofs_Hoare Proofs_Lookup Proofs_Tree Proofs_Param Proofs_Guards Spec_Inv Proofs_Inv
  Proofs_Header Spec_Typed Proofs_Store Proofs_Updaters Proofs_ApiSafe Proofs_InvFrame Proofs_Declare.
Local Open Scope N_scope.

(* ---------- the ten components of the predicate, named ---------- *)
Lemma inv_b_parts : forall s, inv_b s = true <->
  let r := inv_report_of s in
  r_points_hdr r = true /\ r_points_frames r = true /\ r_frames_hdr r = true /\ r_frames_stored r = true /\ r_subframes r = true /\
  r_analogs_hdr r = true /\ r_analogs_meas r = true /\ r_analogs_frames r = true /\ r_label_counts r = true /\ r_label_order r = true.
Proof. intros s. unfold inv_b. cbv zeta. rewrite !andb_true_iff. tauto. Qed.

(* ---------- header, frames and prologue are untouched until the closing updateHeader ---------- *)
Definition same_hf (s s' : state) : Prop := hdr s' = hdr s /\ frames s' = frames s /\ pro s' = pro s.
Lemma same_hf_refl : forall s, same_hf s s.
Proof. intros s. unfold same_hf. auto. Qed.
Lemma same_hf_trans : forall a b c, same_hf a b -> same_hf b c -> same_hf a c.
Proof. unfold same_hf. intros a b c [H1 [H2 H3]] [H4 [H5 H6]]. repeat split; congruence. Qed.

Lemma keeps_pure : forall A (m : Mst A) (o : state -> outcome A), (forall s, m s = lift (o s) s) -> keeps same_hf m.
Proof. intros A m o H s. rewrite H. unfold lift. destruct (o s); try apply same_hf_refl. exact I. Qed.
Lemma keeps_upd_param : forall g n f, keeps same_hf (upd_param g n f).
Proof.
  intros g n f s. rewrite upd_param_pure. destruct (t_upd (groups s) g n f); try apply same_hf_refl; [|exact I].
  unfold same_hf. cbn. auto.
Qed.

Ltac hstep :=
  match goal with
  | |- keeps _ (bind _ _) => apply (keeps_bind _ _ same_hf_trans); [|intros ?]
  | |- keeps _ (ret _) => apply (keeps_ret _ _ same_hf_refl)
  | |- keeps _ (throw _) => apply (keeps_throw _ _ same_hf_refl)
  | |- keeps _ (ub _) => apply keeps_ub
  | |- keeps _ (lift _) => apply (keeps_lift _ _ same_hf_refl)
  | |- keeps _ getS => apply (keeps_getS _ _ same_hf_refl)
  | |- keeps _ (upd_param _ _ _) => apply keeps_upd_param
  | |- keeps _ (int0 _ _ _) => apply (keeps_pure _ _ _ (int0_pure _ _ _))
  | |- keeps _ (strs_of _ _) => apply (keeps_pure _ _ _ (strs_of_pure _ _))
  | |- keeps _ (get_group _) => apply (keeps_pure _ _ _ (get_group_pure _))
  | |- keeps _ (when ?b _) => unfold when; destruct b
  | |- keeps _ (if ?b then _ else _) => destruct b
  | |- keeps _ (match ?x with _ => _ end) => destruct x
  end.

Lemma keeps_build_names : forall n i F, (forall j, keeps same_hf (F j)) -> keeps same_hf (build_names n i F).
Proof. intros n. induction n as [|n IH]; intros i F H; cbn [build_names]; repeat hstep; auto. Qed.

Section WithOps.
Variable f_key : f32 -> outcome Z.
Variable f_tosize : f32 -> outcome N.
Variable f_div : f32 -> f32 -> f32.
Hypothesis f_key_nt : forall x e, f_key x <> Throw e.
Hypothesis f_tosize_nt : forall x e, f_tosize x <> Throw e.

Definition ends_from (m : Mst unit) : Prop :=
  forall s s', m s = ROk tt s' -> exists s1, same_hf s s1 /\ update_header f_key f_tosize f_div true s1 = ROk tt s'.
Lemma ends_bind : forall A (m : Mst A) (k : A -> Mst unit), keeps same_hf m -> (forall a, ends_from (k a)) -> ends_from (bind m k).
Proof.
  intros A m k Hm Hk s s' H. apply bind_ok in H. destruct H as [a [s1 [E1 E2]]]. specialize (Hm s). rewrite E1 in Hm.
  destruct (Hk a s1 s' E2) as [s2 [R2 U]]. exists s2. split; [eapply same_hf_trans; eauto|exact U].
Qed.
Lemma ends_uh : ends_from (update_header f_key f_tosize f_div true).
Proof. intros s s' H. exists s. split; [apply same_hf_refl|exact H]. Qed.

Theorem update_parameters_from : forall nP nA, ends_from (update_parameters f_key f_tosize f_div nP nA).
Proof.
  intros nP nA. unfold update_parameters.
  repeat (lazymatch goal with |- ends_from (update_header _ _ _ _) => fail | _ => idtac end;
          apply ends_bind; [repeat first [apply keeps_build_names; intros ? | hstep]|intros ?]).
  apply ends_uh.
Qed.

Lemma opt_eqb_some : forall o v, opt_eqb o v = true <-> o = Some v.
Proof.
  intros o v. unfold opt_eqb. destruct o as [x|]; split; intros H; try discriminate.
  - apply N.eqb_eq in H. subst. reflexivity.
  - injection H as ->. apply N.eqb_refl.
Qed.

(* what the agreement says about a frame-less object: the counts are the lengths of the label lists *)
Lemma inv_frameless_facts : forall s lP lA X, Inv s ->
  lk_strs (groups s) nm_POINT nm_LABELS = Some lP -> lk_strs (groups s) nm_ANALOG nm_LABELS = Some lA ->
  Forall (holds (groups s)) X -> Forall (holds (groups s)) (decl_pre lP lA X).
Proof.
  intros s lP lA X HI LP LA HX. apply inv_b_parts in HI. cbv zeta in HI. destruct HI as (_ & _ & _ & _ & _ & _ & _ & _ & I9 & _).
  unfold inv_report_of in I9. cbn [r_label_counts] in I9.
  destruct (lk_int0 (groups s) nm_POINT nm_USED) as [u|] eqn:Eu; [|discriminate].
  destruct (lk_int0 (groups s) nm_ANALOG nm_USED) as [a|] eqn:Ea; [|discriminate].
  rewrite !andb_true_iff in I9. destruct I9 as [[[[[[[C1 C2] C3] C4] C5] C6] C7] C8].
  apply opt_eqb_some in C1, C2, C3, C4, C5, C6, C7, C8.
  rewrite (lk_strs_count _ _ _ _ LP) in C1. injection C1 as <-. rewrite (lk_strs_count _ _ _ _ LA) in C4. injection C4 as <-.
  unfold decl_pre, PU, PL, PD, PN, AU, AL, AD, AS, AO, AN.
  repeat (apply Forall_cons); try exact HX;
    first [apply lk_int0_holds; assumption | apply lk_strs_holds; assumption | apply lk_count_holds; assumption].
Qed.

Theorem update_parameters_declare_keeps_inv : forall nP nA s s' lP lA XF,
  Inv s -> MT (groups s) -> exact (hdr s) -> frames s = [] -> untouched XF -> Forall (holds (groups s)) XF ->
  lk_strs (groups s) nm_POINT nm_LABELS = Some lP -> lk_strs (groups s) nm_ANALOG nm_LABELS = Some lA ->
  nlen lP + nlen nP < 2147483648 -> nlen lA + nlen nA < 2147483648 ->
  h_nb_analogs (hdr s) * h_byframe (hdr s') < two64 -> (nlen lA + nlen nA) * h_byframe (hdr s') < two64 ->
  update_parameters f_key f_tosize f_div nP nA s = ROk tt s' ->
  Inv s' /\ MT (groups s') /\ exact (hdr s') /\ frames s' = [] /\ pro s' = pro s /\
  lk_strs (groups s') nm_POINT nm_LABELS = Some (lP ++ nP) /\ lk_strs (groups s') nm_ANALOG nm_LABELS = Some (lA ++ nA) /\
  lk_int0 (groups s') nm_POINT nm_USED = Some (nlen lP + nlen nP) /\ lk_int0 (groups s') nm_ANALOG nm_USED = Some (nlen lA + nlen nA) /\
  Forall (holds (groups s')) XF.
Proof.
  intros nP nA s s' lP lA XF HI HM Ex Fs UX HX LP LA SP SA W1 W2 H.
  pose proof (inv_frameless_facts s lP lA XF HI LP LA HX) as F0.
  destruct (hoare_run _ _ _ _ s (update_parameters_declare f_key f_tosize f_div f_key_nt f_tosize_nt nP nA s lP lA XF HM Fs UX F0 SP SA) eq_refl) as [_ Q].
  specialize (Q tt s' H). destruct Q as [HM' [Fs' [Pr' D]]].
  set (np := nlen lP + nlen nP) in *. set (na := nlen lA + nlen nA) in *.
  unfold decl_post in D. fold np in D. fold na in D. rewrite Forall_forall in D.
  assert (hF : lk_int0 (groups s') nm_POINT nm_FRAMES = Some 0) by (apply holds_vint, D; cbn [In]; auto 12).
  assert (hPU : lk_int0 (groups s') nm_POINT nm_USED = Some np) by (apply holds_vint, D; cbn [In]; auto 12).
  assert (hPL : lk_strs (groups s') nm_POINT nm_LABELS = Some (lP ++ nP)) by (apply holds_vstr, D; cbn [In]; auto 12).
  assert (hPD : lk_count (groups s') nm_POINT nm_DESCRIPTIONS = Some np) by (apply holds_count, D; cbn [In]; auto 12).
  assert (hPN : lk_count (groups s') nm_POINT nm_UNITS = Some np) by (apply holds_count, D; cbn [In]; auto 12).
  assert (hAU : lk_int0 (groups s') nm_ANALOG nm_USED = Some na) by (apply holds_vint, D; cbn [In]; auto 12).
  assert (hAL : lk_strs (groups s') nm_ANALOG nm_LABELS = Some (lA ++ nA)) by (apply holds_vstr, D; cbn [In]; auto 12).
  assert (hAD : lk_count (groups s') nm_ANALOG nm_DESCRIPTIONS = Some na) by (apply holds_count, D; cbn [In]; auto 12).
  assert (hAS : lk_count (groups s') nm_ANALOG nm_SCALE = Some na) by (apply holds_count, D; cbn [In]; auto 12).
  assert (hAO : lk_count (groups s') nm_ANALOG nm_OFFSET = Some na) by (apply holds_count, D; cbn [In]; auto 12).
  assert (hAN : lk_count (groups s') nm_ANALOG nm_UNITS = Some na) by (apply holds_count, D; cbn [In]; auto 12).
  (* the header *)
  destruct (update_parameters_from nP nA s s' H) as [s1 [[Eh [Ef Ep]] U]].
  pose proof (update_header_agrees f_key f_tosize f_div true s1 s' U) as (G & _ & _ & (u & Ru & Hu) & _ & (fz & Rf & Hf) & (ga & Ga & _ & Hga) & _).
  rewrite <- G in Ru, Rf, Ga, Hga.
  assert (Ex' : exact (hdr s')).
  { apply (update_header_exact f_key f_tosize f_div true s1 s' U); [rewrite Eh; exact Ex|rewrite Eh; exact W1|].
    intros au Rau. rewrite <- G in Rau. pose proof (r_int0_lk _ _ _ _ _ Rau) as X. rewrite hAU in X. injection X as <-. exact W2. }
  assert (Pts : h_points (hdr s') = np).
  { pose proof (r_int0_lk _ _ _ _ _ Ru) as X. rewrite hPU in X. injection X as X. rewrite Hu. symmetry. exact X. }
  assert (Ana : h_byframe (hdr s') <> 0 -> h_nb_analogs (hdr s') = na).
  { intros Hb. destruct (lk_int0_lookup _ _ _ _ hAU) as [pA LpA].
    destruct (Hga (lookup_params_nonempty _ _ _ _ _ LpA Ga)) as [au [Rau Hau]].
    pose proof (r_int0_lk _ _ _ _ _ Rau) as X. rewrite hAU in X. injection X as X. rewrite <- X in Hau. apply Hau; [exact Hb|exact W2]. }
  assert (Nf : h_nb_frames (hdr s') = 0).
  { pose proof (r_int0_lk _ _ _ _ _ Rf) as X. rewrite hF in X. injection X as X.
    destruct (N.eq_dec (h_points (hdr s')) 0) as [Z1|Z1]; [|rewrite Hf by (left; exact Z1); symmetry; exact X].
    destruct (N.eq_dec (h_nb_analogs (hdr s')) 0) as [Z2|Z2]; [apply nb_frames_empty_shape; assumption|rewrite Hf by (right; exact Z2); symmetry; exact X]. }
  split; [|repeat split; try assumption; apply Forall_forall; intros x Hx; apply D; cbn [In]; auto 20].
  apply inv_b_parts. cbv zeta. unfold inv_report_of. rewrite Fs'.
  cbn [r_points_hdr r_points_frames r_frames_hdr r_frames_stored r_subframes r_analogs_hdr r_analogs_meas r_analogs_frames r_label_counts r_label_order filter forallb].
  rewrite hF, hPU, hAU, (lk_strs_count _ _ _ _ hPL), hPD, hPN, (lk_strs_count _ _ _ _ hAL), hAD, hAS, hAO, hAN.
  repeat split.
  - apply opt_eqb_some. rewrite Pts. reflexivity.
  - apply opt_eqb_some. rewrite Nf. reflexivity.
  - destruct (1 <=? h_byframe (hdr s')) eqn:B; [|reflexivity]. apply opt_eqb_some. rewrite Ana by lia. reflexivity.
  - destruct (1 <=? h_byframe (hdr s')) eqn:B; [|reflexivity]. apply N.eqb_eq. exact Ex'.
  - destruct (1 <=? h_byframe (hdr s')); reflexivity.
  - assert (E1 : nlen (lP ++ nP) = np) by (unfold np, nlen; rewrite app_length; lia).
    assert (E2 : nlen (lA ++ nA) = na) by (unfold na, nlen; rewrite app_length; lia).
    rewrite E1, E2. cbn [opt_eqb]. rewrite !N.eqb_refl. reflexivity.
Qed.
End WithOps.

(* ---------- the declaration phase: POINT:RATE still zero, any number of names declared ---------- *)
Section Declaring.
Variable f_key : f32 -> outcome Z.
Variable f_tosize : f32 -> outcome N.
Variable f_div : f32 -> f32 -> f32.
Hypothesis f_key_nt : forall x e, f_key x <> Throw e.
Hypothesis f_tosize_nt : forall x e, f_tosize x <> Throw e.

(* while the point rate is zero the header announces one sub-frame per frame (an object without data, ANALOG group not empty) *)
Lemma update_header_byframe_rate0 : forall b s s' rate ga,
  update_header f_key f_tosize f_div b s = ROk tt s' -> first_frame b s = None ->
  r_float0 12 (groups s) nm_POINT nm_RATE = Ok rate -> f32_is_zero rate = true ->
  group_named (groups s) nm_ANALOG = Ok ga -> g_params ga <> [] -> h_byframe (hdr s') = 1.
Proof.
  intros b s s' rate ga H Ff Hr Hz Hga Hne. apply update_header_factor in H. destruct H as [P _]. unfold uh_pure in P.
  destruct (rate_points_pure f_key (groups s) (hdr s)) as [[rate' h2]| |] eqn:E2; cbn [obind] in P; try discriminate.
  destruct (byframe_pure f_tosize f_div (groups s) (first_frame b s) rate' h2) as [h3| |] eqn:E3; cbn [obind] in P; try discriminate.
  destruct (analogs_pure (groups s) h3) as [h4| |] eqn:E4; cbn [obind] in P; try discriminate.
  destruct (rate_points_spec _ _ _ _ _ E2) as [R1 _]. rewrite Hr in R1. injection R1 as <-.
  destruct (analogs_spec _ _ _ E4) as [_ [_ [B4 _]]].
  destruct (frames_spec _ _ _ P) as [_ [_ [B5 _]]].
  rewrite B5, B4. rewrite Ff in E3. unfold byframe_pure in E3. rewrite Hga in E3. cbn [obind] in E3.
  assert (Nz : negb (nlen (g_params ga) =? 0) = true).
  { destruct (g_params ga); [congruence|]. reflexivity. }
  rewrite Nz, Hz in E3. destruct (negb (h_byframe h2 =? 1)) eqn:Q; injection E3 as <-; [reflexivity|].
  apply Bool.negb_false_iff in Q. apply N.eqb_eq in Q. exact Q.
Qed.

Definition Vflt0 (r : f32) (p : param) : Prop := exists t, values_as_float p = Ok (r :: t).
Lemma holds_vflt0 : forall k gs g n r, holds gs (g, n, Vflt0 r) -> r_float0 k gs g n = Ok r.
Proof. intros k gs g n r [p [L V]]. cbn [fst snd] in *. destruct V as [t V]. unfold r_float0. rewrite L. cbn [obind]. rewrite V. cbn [obind]. apply at0_cons. Qed.
Lemma r_float0_holds : forall k gs g n r, r_float0 k gs g n = Ok r -> holds gs (g, n, Vflt0 r).
Proof.
  intros k gs g n r H. unfold r_float0 in H. destruct (lookup gs g n) as [p| |] eqn:L; cbn [obind] in H; try discriminate.
  exists p. cbn [fst snd]. split; [exact L|]. unfold Vflt0. destruct (values_as_float p) as [l| |]; cbn [obind] in H; try discriminate.
  destruct l as [|a t]; [unfold at_, nlen in H; cbn in H; discriminate|]. rewrite at0_cons in H. injection H as ->. exists t. reflexivity.
Qed.

(* an object in its declaration phase: no frame, point rate zero, the agreement holds, labels lP / lA *)
Definition declaring (s : state) (lP lA : list bstr) : Prop :=
  Inv s /\ MT (groups s) /\ exact (hdr s) /\ frames s = [] /\
  lk_strs (groups s) nm_POINT nm_LABELS = Some lP /\ lk_strs (groups s) nm_ANALOG nm_LABELS = Some lA /\
  (exists rate, r_float0 12 (groups s) nm_POINT nm_RATE = Ok rate /\ f32_is_zero rate = true) /\
  (h_byframe (hdr s) = 0 \/ h_byframe (hdr s) = 1).

Lemma untouched_point_rate : forall V, untouched [(nm_POINT, nm_RATE, V)].
Proof. intros V. unfold untouched, apart. repeat split; (apply Forall_cons; [cbn [fst snd]; first [left; discriminate|right; discriminate]|apply Forall_nil]). Qed.

Lemma untouched_cons : forall a X, untouched [a] -> untouched X -> untouched (a :: X).
Proof.
  intros a X (A1 & A2 & A3 & A4 & A5 & A6 & A7 & A8 & A9 & A10 & A11) (B1 & B2 & B3 & B4 & B5 & B6 & B7 & B8 & B9 & B10 & B11).
  unfold untouched, apart in *. repeat split; (apply Forall_cons; [match goal with Hh : Forall _ [a] |- _ => apply Forall_inv in Hh; exact Hh end|assumption]).
Qed.

(* X0: any further facts about parameters the updater does not write (ANALOG:RATE, other groups): they still hold afterwards *)
Theorem declare_step_carrying : forall nP nA s s' lP lA X0,
  declaring s lP lA -> untouched X0 -> Forall (holds (groups s)) X0 ->
  nlen lP + nlen nP < 2147483648 -> nlen lA + nlen nA < 2147483648 ->
  update_parameters f_key f_tosize f_div nP nA s = ROk tt s' ->
  declaring s' (lP ++ nP) (lA ++ nA) /\ pro s' = pro s /\ h_byframe (hdr s') = 1 /\ Forall (holds (groups s')) X0.
Proof.
  intros nP nA s s' lP lA X0 (HI & HM & Ex & Fs & LP & LA & (rate & Hr & Hz) & Hb) UX0 HX0 SP SA H.
  (* the header of s' announces one sub-frame: derived before the agreement, which needs the bound *)
  destruct (update_parameters_from f_key f_tosize f_div nP nA s s' H) as [s1 [[Eh [Ef Ep]] U]].
  set (XF := (nm_POINT, nm_RATE, Vflt0 rate) :: X0).
  assert (HX : Forall (holds (groups s)) XF) by (constructor; [apply (r_float0_holds 12); exact Hr|exact HX0]).
  assert (UXF : untouched XF) by (apply untouched_cons; [apply untouched_point_rate|exact UX0]).
  pose proof (inv_frameless_facts s lP lA XF HI LP LA HX) as F0.
  destruct (hoare_run _ _ _ _ s (update_parameters_declare f_key f_tosize f_div f_key_nt f_tosize_nt nP nA s lP lA XF HM Fs UXF F0 SP SA) eq_refl) as [_ Q].
  specialize (Q tt s' H). destruct Q as [HM' [Fs' [Pr' D]]]. rewrite Forall_forall in D.
  pose proof (update_header_agrees f_key f_tosize f_div true s1 s' U) as (G & _).
  assert (hR : r_float0 12 (groups s') nm_POINT nm_RATE = Ok rate) by (apply holds_vflt0, D; unfold decl_post, XF; cbn [In]; auto 20).
  assert (hAU : lk_int0 (groups s') nm_ANALOG nm_USED = Some (nlen lA + nlen nA)) by (apply holds_vint, D; unfold decl_post; cbn [In]; auto 20).
  destruct (lk_int0_lookup _ _ _ _ hAU) as [pA LpA].
  assert (Gx : exists ga, group_named (groups s') nm_ANALOG = Ok ga).
  { unfold lookup in LpA. destruct (group_named (groups s') nm_ANALOG) as [ga| |]; cbn [obind] in LpA; try discriminate. eauto. }
  destruct Gx as [ga Ga].
  assert (B1 : h_byframe (hdr s') = 1).
  { apply (update_header_byframe_rate0 true s1 s' rate ga U).
    - unfold first_frame. rewrite Ef, Fs. reflexivity.
    - rewrite <- G. exact hR.
    - exact Hz.
    - rewrite <- G. exact Ga.
    - exact (lookup_params_nonempty _ _ _ _ _ LpA Ga). }
  (* the channel count the header of s holds is bounded by the agreement of s *)
  assert (NA : h_nb_analogs (hdr s) < 2147483648).
  { destruct Hb as [Z0|Z1]; [unfold h_nb_analogs; rewrite Z0; cbn; lia|].
    apply inv_b_parts in HI. cbv zeta in HI. destruct HI as (_ & _ & _ & _ & _ & I6 & _ & _ & I9 & _).
    unfold inv_report_of in I6, I9. cbn [r_analogs_hdr r_label_counts] in I6, I9. rewrite Z1 in I6. cbn in I6.
    destruct (lk_int0 (groups s) nm_POINT nm_USED) as [u|]; [|discriminate].
    destruct (lk_int0 (groups s) nm_ANALOG nm_USED) as [a|] eqn:Ea; [|discriminate].
    apply opt_eqb_some in I6. injection I6 as I6.
    rewrite !andb_true_iff in I9. destruct I9 as [[[[[[[_ _] _] C4] _] _] _] _]. apply opt_eqb_some in C4.
    rewrite (lk_strs_count _ _ _ _ LA) in C4. injection C4 as C4. lia. }
  destruct (update_parameters_declare_keeps_inv f_key f_tosize f_div f_key_nt f_tosize_nt nP nA s s' lP lA XF HI HM Ex Fs UXF HX LP LA SP SA)
    as (I' & M' & E' & F' & P' & L1 & L2 & _ & _ & HXF'); try exact H; try (rewrite B1; unfold two64; lia).
  split; [|split; [exact P'|split; [exact B1|apply Forall_inv_tail in HXF'; exact HXF']]].
  unfold declaring. repeat split; try assumption. - exists rate. split; assumption. - right. exact B1.
Qed.

Theorem declare_step : forall nP nA s s' lP lA,
  declaring s lP lA -> nlen lP + nlen nP < 2147483648 -> nlen lA + nlen nA < 2147483648 ->
  update_parameters f_key f_tosize f_div nP nA s = ROk tt s' ->
  declaring s' (lP ++ nP) (lA ++ nA) /\ pro s' = pro s /\ h_byframe (hdr s') = 1.
Proof.
  intros nP nA s s' lP lA D SP SA H.
  assert (U0 : untouched []) by (unfold untouched, apart; repeat split; constructor).
  destruct (declare_step_carrying nP nA s s' lP lA [] D U0 (Forall_nil _) SP SA H) as (A & B & C & _). auto.
Qed.
End Declaring.

(* ---------- from the constructor: any number of points, then any number of channels ---------- *)
Section FromInit.
Variable f_key : f32 -> outcome Z.
Variable f_tosize : f32 -> outcome N.
Variable f_div : f32 -> f32 -> f32.
Variable f_is_zero : f32 -> bool.
Hypothesis f_key_nt : forall x e, f_key x <> Throw e.
Hypothesis f_tosize_nt : forall x e, f_tosize x <> Throw e.

Lemma api_point_frameless : forall name s, frames s = [] ->
  api_point f_key f_tosize f_div name s = update_parameters f_key f_tosize f_div [rtrim name] [] s.
Proof. intros name s H. unfold api_point. unfold bind at 1. cbv [getS]. rewrite H. reflexivity. Qed.
Lemma api_analog_frameless : forall name s, frames s = [] ->
  api_analog f_key f_tosize f_div name s = update_parameters f_key f_tosize f_div [] [rtrim name] s.
Proof. intros name s H. unfold api_analog. unfold bind at 1. cbv [getS]. rewrite H. reflexivity. Qed.

Fixpoint run_ops (ops : list op) (s : state) : res state unit :=
  match ops with
  | [] => ROk tt s
  | o :: t => match step f_key f_tosize f_div f_is_zero s o with
              | ROk _ s1 => run_ops t s1 | RThrow e s1 => RThrow e s1 | RUB u => RUB u end
  end.
Lemma run_ops_app : forall a b s s', run_ops (a ++ b) s = ROk tt s' -> exists s1, run_ops a s = ROk tt s1 /\ run_ops b s1 = ROk tt s'.
Proof.
  induction a as [|o a IH]; intros b s s' H; cbn [app run_ops] in *; [eauto|].
  destruct (step f_key f_tosize f_div f_is_zero s o) as [[] s1| |]; try discriminate. apply IH. exact H.
Qed.

Lemma declare_points_run : forall ps s s' lP lA, declaring s lP lA ->
  nlen lP + nlen ps < 2147483648 -> nlen lA < 2147483648 ->
  run_ops (map OPoint ps) s = ROk tt s' -> declaring s' (lP ++ map rtrim ps) lA /\ pro s' = pro s.
Proof.
  induction ps as [|n ps IH]; intros s s' lP lA D SP SA H; cbn [map run_ops] in H.
  - injection H as <-. rewrite app_nil_r. auto.
  - cbn [step] in H. destruct (api_point f_key f_tosize f_div n s) as [[] s1| |] eqn:E; try discriminate.
    assert (Fs : frames s = []) by apply D. rewrite (api_point_frameless n s Fs) in E.
    assert (S1 : nlen lP + nlen [rtrim n] < 2147483648) by (unfold nlen in *; cbn [length] in *; lia).
    assert (S2 : nlen lA + nlen (@nil bstr) < 2147483648) by (unfold nlen in *; cbn [length]; lia).
    destruct (declare_step f_key f_tosize f_div f_key_nt f_tosize_nt [rtrim n] [] s s1 lP lA D S1 S2 E) as [D1 [P1 _]].
    rewrite app_nil_r in D1.
    destruct (IH s1 s' (lP ++ [rtrim n]) lA D1) as [D' P']; try assumption.
    + unfold nlen in *. rewrite app_length. cbn [length] in *. lia.
    + split; [|congruence]. cbn [map]. rewrite <- app_assoc in D'. exact D'.
Qed.
Lemma declare_analogs_run : forall cs s s' lP lA, declaring s lP lA ->
  nlen lP < 2147483648 -> nlen lA + nlen cs < 2147483648 ->
  run_ops (map OAnalog cs) s = ROk tt s' -> declaring s' lP (lA ++ map rtrim cs) /\ pro s' = pro s.
Proof.
  induction cs as [|n cs IH]; intros s s' lP lA D SP SA H; cbn [map run_ops] in H.
  - injection H as <-. rewrite app_nil_r. auto.
  - cbn [step] in H. destruct (api_analog f_key f_tosize f_div n s) as [[] s1| |] eqn:E; try discriminate.
    assert (Fs : frames s = []) by apply D. rewrite (api_analog_frameless n s Fs) in E.
    assert (S1 : nlen lP + nlen (@nil bstr) < 2147483648) by (unfold nlen in *; cbn [length]; lia).
    assert (S2 : nlen lA + nlen [rtrim n] < 2147483648) by (unfold nlen in *; cbn [length] in *; lia).
    destruct (declare_step f_key f_tosize f_div f_key_nt f_tosize_nt [] [rtrim n] s s1 lP lA D S1 S2 E) as [D1 [P1 _]].
    rewrite app_nil_r in D1.
    destruct (IH s1 s' lP (lA ++ [rtrim n]) D1) as [D' P']; try assumption.
    + unfold nlen in *. rewrite app_length. cbn [length] in *. lia.
    + split; [|congruence]. cbn [map]. rewrite <- app_assoc in D'. exact D'.
Qed.

Lemma declaring_init : declaring init [] [].
Proof.
  unfold declaring. split; [exact inv_init|]. split; [vm_compute; reflexivity|]. split; [reflexivity|]. split; [reflexivity|].
  split; [vm_compute; reflexivity|]. split; [vm_compute; reflexivity|]. split; [exists 0; split; vm_compute; reflexivity|left; reflexivity].
Qed.

(* THE DECLARATION PHASE, from the constructor, for every list of names: after point(name) for each of ps and analog(name)
   for each of cs — whatever the names, repeated ones included — header, parameters and (absent) data agree, the label lists
   are the trimmed names in call order, and nothing else of the prologue changed *)
Theorem declarations_from_init : forall ps cs s', nlen ps < 2147483648 -> nlen cs < 2147483648 ->
  run_ops (map OPoint ps ++ map OAnalog cs) init = ROk tt s' ->
  declaring s' (map rtrim ps) (map rtrim cs) /\ pro s' = pro init.
Proof.
  intros ps cs s' SP SA H. destruct (run_ops_app _ _ _ _ H) as [s1 [H1 H2]].
  destruct (declare_points_run ps init s1 [] [] declaring_init) as [D1 P1]; try assumption; [unfold nlen; cbn [length]; lia|].
  cbn [app] in D1.
  destruct (declare_analogs_run cs s1 s' (map rtrim ps) [] D1) as [D2 P2]; try assumption.
  - unfold nlen in *. rewrite map_length. exact SP.
  - cbn [app] in D2. split; [exact D2|congruence].
Qed.
(* the same with further facts about parameters the updater does not write carried along (ANALOG:RATE, other groups) *)
Lemma declare_points_run_carrying : forall ps s s' lP lA X0, declaring s lP lA -> untouched X0 -> Forall (holds (groups s)) X0 ->
  nlen lP + nlen ps < 2147483648 -> nlen lA < 2147483648 ->
  run_ops (map OPoint ps) s = ROk tt s' -> declaring s' (lP ++ map rtrim ps) lA /\ Forall (holds (groups s')) X0.
Proof.
  induction ps as [|n ps IH]; intros s s' lP lA X0 D U HX SP SA H; cbn [map run_ops] in H.
  - injection H as <-. rewrite app_nil_r. auto.
  - cbn [step] in H. destruct (api_point f_key f_tosize f_div n s) as [[] s1| |] eqn:E; try discriminate.
    assert (Fs : frames s = []) by apply D. rewrite (api_point_frameless n s Fs) in E.
    assert (S1 : nlen lP + nlen [rtrim n] < 2147483648) by (unfold nlen in *; cbn [length] in *; lia).
    assert (S2 : nlen lA + nlen (@nil bstr) < 2147483648) by (unfold nlen in *; cbn [length]; lia).
    destruct (declare_step_carrying f_key f_tosize f_div f_key_nt f_tosize_nt [rtrim n] [] s s1 lP lA X0 D U HX S1 S2 E) as [D1 [_ [_ HX1]]].
    rewrite app_nil_r in D1.
    destruct (IH s1 s' (lP ++ [rtrim n]) lA X0 D1 U HX1) as [D' HX']; try assumption.
    + unfold nlen in *. rewrite app_length. cbn [length] in *. lia.
    + split; [|exact HX']. cbn [map]. rewrite <- app_assoc in D'. exact D'.
Qed.
Lemma declare_analogs_run_carrying : forall cs s s' lP lA X0, declaring s lP lA -> untouched X0 -> Forall (holds (groups s)) X0 ->
  nlen lP < 2147483648 -> nlen lA + nlen cs < 2147483648 ->
  run_ops (map OAnalog cs) s = ROk tt s' -> declaring s' lP (lA ++ map rtrim cs) /\ Forall (holds (groups s')) X0.
Proof.
  induction cs as [|n cs IH]; intros s s' lP lA X0 D U HX SP SA H; cbn [map run_ops] in H.
  - injection H as <-. rewrite app_nil_r. auto.
  - cbn [step] in H. destruct (api_analog f_key f_tosize f_div n s) as [[] s1| |] eqn:E; try discriminate.
    assert (Fs : frames s = []) by apply D. rewrite (api_analog_frameless n s Fs) in E.
    assert (S1 : nlen lP + nlen (@nil bstr) < 2147483648) by (unfold nlen in *; cbn [length]; lia).
    assert (S2 : nlen lA + nlen [rtrim n] < 2147483648) by (unfold nlen in *; cbn [length] in *; lia).
    destruct (declare_step_carrying f_key f_tosize f_div f_key_nt f_tosize_nt [] [rtrim n] s s1 lP lA X0 D U HX S1 S2 E) as [D1 [_ [_ HX1]]].
    rewrite app_nil_r in D1.
    destruct (IH s1 s' lP (lA ++ [rtrim n]) X0 D1 U HX1) as [D' HX']; try assumption.
    + unfold nlen in *. rewrite app_length. cbn [length] in *. lia.
    + split; [|exact HX']. cbn [map]. rewrite <- app_assoc in D'. exact D'.
Qed.
Theorem declarations_from_init_carrying : forall ps cs s' X0, untouched X0 -> Forall (holds (groups init)) X0 ->
  nlen ps < 2147483648 -> nlen cs < 2147483648 ->
  run_ops (map OPoint ps ++ map OAnalog cs) init = ROk tt s' ->
  declaring s' (map rtrim ps) (map rtrim cs) /\ Forall (holds (groups s')) X0.
Proof.
  intros ps cs s' X0 U HX SP SA H. destruct (run_ops_app _ _ _ _ H) as [s1 [H1 H2]].
  destruct (declare_points_run_carrying ps init s1 [] [] X0 declaring_init U HX) as [D1 HX1]; try assumption; [unfold nlen; cbn [length]; lia|].
  cbn [app] in D1.
  destruct (declare_analogs_run_carrying cs s1 s' (map rtrim ps) [] X0 D1 U HX1) as [D2 HX2]; try assumption.
  - unfold nlen in *. rewrite map_length. exact SP.
  - cbn [app] in D2. auto.
Qed.
End FromInit.
