(* Proofs_InvDeclare.v — C05: declaring points and channels before any frame exists keeps the whole agreement predicate.
   point(name) / analog(name) on a frame-less object run updateParameters([name], []) / ([], [name]); Proofs_Declare gives
   every parameter the predicate reads afterwards, Proofs_Header gives the header; here the ten components are assembled.
   Also: the updater leaves header, frames and prologue alone until its closing updateHeader (update_parameters_from). *)
From Coq Require Import Lia ZifyNat ZifyN ZifyBool Bool.
From EZ Require Import Base Types Api Proofs_Monad Proofs_Hoare Proofs_Lookup Proofs_Tree Proofs_Param Proofs_Guards Spec_Inv Proofs_Inv
  Proofs_Header Spec_Typed Proofs_Store Proofs_Updaters Proofs_ApiSafe Proofs_InvFrame Proofs_Declare.
Local Open Scope N_scope.

(* ---------- the ten components of the predicate, named ---------- *)
Lemma inv_b_parts : forall s, inv_b s = true <->
  let r := inv_report_of s in
  r_points_hdr r = true /\ r_points_frames r = true /\ r_frames_hdr r = true /\ r_frames_stored r = true /\ r_subframes r = true /\
  r_analogs_hdr r = true /\ r_analogs_meas r = true /\ r_analogs_frames r = true /\ r_label_counts r = true /\ r_label_order r = true.
Proof. intros s. unfold inv_b. cbv zeta. rewrite !andb_true_iff. tauto. Qed.

(* ---------- header, frames and prologue are untouched until the closing updateHeader ---------- *)
Definition same_hf (s s' : state) : Prop := hdr s' = hdr s /\ frames s' = frames s /\ pro s' = pro s.
Lemma same_hf_refl : forall s, same_hf s s.
Proof. intros s. unfold same_hf. auto. Qed.
Lemma same_hf_trans : forall a b c, same_hf a b -> same_hf b c -> same_hf a c.
Proof. unfold same_hf. intros a b c [H1 [H2 H3]] [H4 [H5 H6]]. repeat split; congruence. Qed.

Lemma keeps_pure : forall A (m : Mst A) (o : state -> outcome A), (forall s, m s = lift (o s) s) -> keeps same_hf m.
Proof. intros A m o H s. rewrite H. unfold lift. destruct (o s); try apply same_hf_refl. exact I. Qed.
Lemma keeps_upd_param : forall g n f, keeps same_hf (upd_param g n f).
Proof.
  intros g n f s. rewrite upd_param_pure. destruct (t_upd (groups s) g n f); try apply same_hf_refl; [|exact I].
  unfold same_hf. cbn. auto.
Qed.

Ltac hstep :=
  match goal with
  | |- keeps _ (bind _ _) => apply (keeps_bind _ _ same_hf_trans); [|intros ?]
  | |- keeps _ (ret _) => apply (keeps_ret _ _ same_hf_refl)
  | |- keeps _ (throw _) => apply (keeps_throw _ _ same_hf_refl)
  | |- keeps _ (ub _) => apply keeps_ub
  | |- keeps _ (lift _) => apply (keeps_lift _ _ same_hf_refl)
  | |- keeps _ getS => apply (keeps_getS _ _ same_hf_refl)
  | |- keeps _ (upd_param _ _ _) => apply keeps_upd_param
  | |- keeps _ (int0 _ _ _) => apply (keeps_pure _ _ _ (int0_pure _ _ _))
  | |- keeps _ (strs_of _ _) => apply (keeps_pure _ _ _ (strs_of_pure _ _))
  | |- keeps _ (get_group _) => apply (keeps_pure _ _ _ (get_group_pure _))
  | |- keeps _ (when ?b _) => unfold when; destruct b
  | |- keeps _ (if ?b then _ else _) => destruct b
  | |- keeps _ (match ?x with _ => _ end) => destruct x
  end.

Lemma keeps_build_names : forall n i F, (forall j, keeps same_hf (F j)) -> keeps same_hf (build_names n i F).
Proof. intros n. induction n as [|n IH]; intros i F H; cbn [build_names]; repeat hstep; auto. Qed.

Section WithOps.
Variable f_key : f32 -> outcome Z.
Variable f_tosize : f32 -> outcome N.
Variable f_div : f32 -> f32 -> f32.
Hypothesis f_key_nt : forall x e, f_key x <> Throw e.
Hypothesis f_tosize_nt : forall x e, f_tosize x <> Throw e.

Definition ends_from (m : Mst unit) : Prop :=
  forall s s', m s = ROk tt s' -> exists s1, same_hf s s1 /\ update_header f_key f_tosize f_div true s1 = ROk tt s'.
Lemma ends_bind : forall A (m : Mst A) (k : A -> Mst unit), keeps same_hf m -> (forall a, ends_from (k a)) -> ends_from (bind m k).
Proof.
  intros A m k Hm Hk s s' H. apply bind_ok in H. destruct H as [a [s1 [E1 E2]]]. specialize (Hm s). rewrite E1 in Hm.
  destruct (Hk a s1 s' E2) as [s2 [R2 U]]. exists s2. split; [eapply same_hf_trans; eauto|exact U].
Qed.
Lemma ends_uh : ends_from (update_header f_key f_tosize f_div true).
Proof. intros s s' H. exists s. split; [apply same_hf_refl|exact H]. Qed.

Theorem update_parameters_from : forall nP nA, ends_from (update_parameters f_key f_tosize f_div nP nA).
Proof.
  intros nP nA. unfold update_parameters.
  repeat (lazymatch goal with |- ends_from (update_header _ _ _ _) => fail | _ => idtac end;
          apply ends_bind; [repeat first [apply keeps_build_names; intros ? | hstep]|intros ?]).
  apply ends_uh.
Qed.

Lemma opt_eqb_some : forall o v, opt_eqb o v = true <-> o = Some v.
Proof.
  intros o v. unfold opt_eqb. destruct o as [x|]; split; intros H; try discriminate.
  - apply N.eqb_eq in H. subst. reflexivity.
  - injection H as ->. apply N.eqb_refl.
Qed.

(* what the agreement says about a frame-less object: the counts are the lengths of the label lists *)
Lemma inv_frameless_facts : forall s lP lA, Inv s ->
  lk_strs (groups s) nm_POINT nm_LABELS = Some lP -> lk_strs (groups s) nm_ANALOG nm_LABELS = Some lA ->
  Forall (holds (groups s)) (decl_pre lP lA).
Proof.
  intros s lP lA HI LP LA. apply inv_b_parts in HI. cbv zeta in HI. destruct HI as (_ & _ & _ & _ & _ & _ & _ & _ & I9 & _).
  unfold inv_report_of in I9. cbn [r_label_counts] in I9.
  destruct (lk_int0 (groups s) nm_POINT nm_USED) as [u|] eqn:Eu; [|discriminate].
  destruct (lk_int0 (groups s) nm_ANALOG nm_USED) as [a|] eqn:Ea; [|discriminate].
  rewrite !andb_true_iff in I9. destruct I9 as [[[[[[[C1 C2] C3] C4] C5] C6] C7] C8].
  apply opt_eqb_some in C1, C2, C3, C4, C5, C6, C7, C8.
  rewrite (lk_strs_count _ _ _ _ LP) in C1. injection C1 as <-. rewrite (lk_strs_count _ _ _ _ LA) in C4. injection C4 as <-.
  unfold decl_pre, PU, PL, PD, PN, AU, AL, AD, AS, AO, AN.
  repeat (apply Forall_cons); try apply Forall_nil;
    first [apply lk_int0_holds; assumption | apply lk_strs_holds; assumption | apply lk_count_holds; assumption].
Qed.

Theorem update_parameters_declare_keeps_inv : forall nP nA s s' lP lA,
  Inv s -> MT (groups s) -> exact (hdr s) -> frames s = [] ->
  lk_strs (groups s) nm_POINT nm_LABELS = Some lP -> lk_strs (groups s) nm_ANALOG nm_LABELS = Some lA ->
  nlen lP + nlen nP < 2147483648 -> nlen lA + nlen nA < 2147483648 ->
  h_nb_analogs (hdr s) * h_byframe (hdr s') < two64 -> (nlen lA + nlen nA) * h_byframe (hdr s') < two64 ->
  update_parameters f_key f_tosize f_div nP nA s = ROk tt s' ->
  Inv s' /\ MT (groups s') /\ exact (hdr s') /\ frames s' = [] /\ pro s' = pro s /\
  lk_strs (groups s') nm_POINT nm_LABELS = Some (lP ++ nP) /\ lk_strs (groups s') nm_ANALOG nm_LABELS = Some (lA ++ nA) /\
  lk_int0 (groups s') nm_POINT nm_USED = Some (nlen lP + nlen nP) /\ lk_int0 (groups s') nm_ANALOG nm_USED = Some (nlen lA + nlen nA).
Proof.
  intros nP nA s s' lP lA HI HM Ex Fs LP LA SP SA W1 W2 H.
  pose proof (inv_frameless_facts s lP lA HI LP LA) as F0.
  destruct (hoare_run _ _ _ _ s (update_parameters_declare f_key f_tosize f_div f_key_nt f_tosize_nt nP nA s lP lA HM Fs F0 SP SA) eq_refl) as [_ Q].
  specialize (Q tt s' H). destruct Q as [HM' [Fs' [Pr' D]]].
  set (np := nlen lP + nlen nP) in *. set (na := nlen lA + nlen nA) in *.
  unfold decl_post in D. fold np in D. fold na in D. rewrite Forall_forall in D.
  assert (hF : lk_int0 (groups s') nm_POINT nm_FRAMES = Some 0) by (apply holds_vint, D; cbn [In]; auto 12).
  assert (hPU : lk_int0 (groups s') nm_POINT nm_USED = Some np) by (apply holds_vint, D; cbn [In]; auto 12).
  assert (hPL : lk_strs (groups s') nm_POINT nm_LABELS = Some (lP ++ nP)) by (apply holds_vstr, D; cbn [In]; auto 12).
  assert (hPD : lk_count (groups s') nm_POINT nm_DESCRIPTIONS = Some np) by (apply holds_count, D; cbn [In]; auto 12).
  assert (hPN : lk_count (groups s') nm_POINT nm_UNITS = Some np) by (apply holds_count, D; cbn [In]; auto 12).
  assert (hAU : lk_int0 (groups s') nm_ANALOG nm_USED = Some na) by (apply holds_vint, D; cbn [In]; auto 12).
  assert (hAL : lk_strs (groups s') nm_ANALOG nm_LABELS = Some (lA ++ nA)) by (apply holds_vstr, D; cbn [In]; auto 12).
  assert (hAD : lk_count (groups s') nm_ANALOG nm_DESCRIPTIONS = Some na) by (apply holds_count, D; cbn [In]; auto 12).
  assert (hAS : lk_count (groups s') nm_ANALOG nm_SCALE = Some na) by (apply holds_count, D; cbn [In]; auto 12).
  assert (hAO : lk_count (groups s') nm_ANALOG nm_OFFSET = Some na) by (apply holds_count, D; cbn [In]; auto 12).
  assert (hAN : lk_count (groups s') nm_ANALOG nm_UNITS = Some na) by (apply holds_count, D; cbn [In]; auto 12).
  (* the header *)
  destruct (update_parameters_from nP nA s s' H) as [s1 [[Eh [Ef Ep]] U]].
  pose proof (update_header_agrees f_key f_tosize f_div true s1 s' U) as (G & _ & _ & (u & Ru & Hu) & _ & (fz & Rf & Hf) & (ga & Ga & _ & Hga) & _).
  rewrite <- G in Ru, Rf, Ga, Hga.
  assert (Ex' : exact (hdr s')).
  { apply (update_header_exact f_key f_tosize f_div true s1 s' U); [rewrite Eh; exact Ex|rewrite Eh; exact W1|].
    intros au Rau. rewrite <- G in Rau. pose proof (r_int0_lk _ _ _ _ _ Rau) as X. rewrite hAU in X. injection X as <-. exact W2. }
  assert (Pts : h_points (hdr s') = np).
  { pose proof (r_int0_lk _ _ _ _ _ Ru) as X. rewrite hPU in X. injection X as X. rewrite Hu. symmetry. exact X. }
  assert (Ana : h_byframe (hdr s') <> 0 -> h_nb_analogs (hdr s') = na).
  { intros Hb. destruct (lk_int0_lookup _ _ _ _ hAU) as [pA LpA].
    destruct (Hga (lookup_params_nonempty _ _ _ _ _ LpA Ga)) as [au [Rau Hau]].
    pose proof (r_int0_lk _ _ _ _ _ Rau) as X. rewrite hAU in X. injection X as X. rewrite <- X in Hau. apply Hau; [exact Hb|exact W2]. }
  assert (Nf : h_nb_frames (hdr s') = 0).
  { pose proof (r_int0_lk _ _ _ _ _ Rf) as X. rewrite hF in X. injection X as X.
    destruct (N.eq_dec (h_points (hdr s')) 0) as [Z1|Z1]; [|rewrite Hf by (left; exact Z1); symmetry; exact X].
    destruct (N.eq_dec (h_nb_analogs (hdr s')) 0) as [Z2|Z2]; [apply nb_frames_empty_shape; assumption|rewrite Hf by (right; exact Z2); symmetry; exact X]. }
  split; [|repeat split; assumption].
  apply inv_b_parts. cbv zeta. unfold inv_report_of. rewrite Fs'.
  cbn [r_points_hdr r_points_frames r_frames_hdr r_frames_stored r_subframes r_analogs_hdr r_analogs_meas r_analogs_frames r_label_counts r_label_order filter forallb].
  rewrite hF, hPU, hAU, (lk_strs_count _ _ _ _ hPL), hPD, hPN, (lk_strs_count _ _ _ _ hAL), hAD, hAS, hAO, hAN.
  repeat split.
  - apply opt_eqb_some. rewrite Pts. reflexivity.
  - apply opt_eqb_some. rewrite Nf. reflexivity.
  - destruct (1 <=? h_byframe (hdr s')) eqn:B; [|reflexivity]. apply opt_eqb_some. rewrite Ana by lia. reflexivity.
  - destruct (1 <=? h_byframe (hdr s')) eqn:B; [|reflexivity]. apply N.eqb_eq. exact Ex'.
  - destruct (1 <=? h_byframe (hdr s')); reflexivity.
  - assert (E1 : nlen (lP ++ nP) = np) by (unfold np, nlen; rewrite app_length; lia).
    assert (E2 : nlen (lA ++ nA) = na) by (unfold na, nlen; rewrite app_length; lia).
    rewrite E1, E2. cbn [opt_eqb]. rewrite !N.eqb_refl. reflexivity.
Qed.
End WithOps.
