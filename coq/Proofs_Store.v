(* Proofs_Store.v — the append / replace / extend idiom (C06) shared by Data::frame,
   Points::point, Analogs::subframe and SubFrame::channel. *)
From Coq Require Import Lia.
From EZ Require Import Base Types Api Proofs_Lookup Proofs_Monad Proofs_Param.
Local Open Scope N_scope.

(* the documented store, written on lists only *)
Definition store_spec {A} (dflt : A) (l : list A) (x : A) (idx : option N) : list A :=
  match idx with
  | None => l ++ [x]
  | Some i => if i <? nlen l then firstn (N.to_nat i) l ++ [x] ++ skipn (N.to_nat i + 1) l
              else l ++ repeat dflt (N.to_nat (i - nlen l)) ++ [x]
  end.

Definition max_index : N := 2305843009213693951.

Lemma replace_nth_firstn_skipn : forall A (l : list A) n x, (n < length l)%nat ->
  replace_nth n x l = firstn n l ++ [x] ++ skipn (n + 1) l.
Proof.
  induction l as [|a l IH]; intros [|n] x H; simpl in *; try lia; [reflexivity|].
  f_equal. apply IH. lia.
Qed.

Lemma nth_error_firstn_lt : forall A (l : list A) n j, (j < n)%nat -> nth_error (firstn n l) j = nth_error l j.
Proof.
  induction l as [|a l IH]; intros [|n] [|j] H; simpl; try lia; auto. apply IH. lia.
Qed.
Lemma nth_error_skipn_add : forall A (l : list A) n j, nth_error (skipn n l) j = nth_error l (n + j).
Proof.
  induction l as [|a l IH]; intros [|n] j; simpl; auto. destruct j; reflexivity.
Qed.

(* accepted calls store exactly as documented *)
Lemma put_spec : forall A (d : A) l x idx,
  (forall i, idx = Some i -> i <= max_index) ->
  put d l x idx = Ok (store_spec d l x idx).
Proof.
  intros A d l x [i|] H; simpl; [|reflexivity].
  specialize (H i eq_refl). unfold max_index in H.
  destruct (i <? nlen l) eqn:L.
  - apply N.ltb_lt in L. rewrite replace_nth_firstn_skipn by (unfold nlen in L; lia). reflexivity.
  - destruct (i =? size_max) eqn:E; [apply N.eqb_eq in E; unfold size_max in E; lia|].
    destruct (2305843009213693951 <? i) eqn:G; [apply N.ltb_lt in G; lia|]. reflexivity.
Qed.

(* the SIZE_MAX sentinel appends; an index beyond what a vector can hold is a length_error *)
Lemma put_sentinel : forall A (d : A) l x, nlen l < size_max -> put d l x (Some size_max) = Ok (l ++ [x]).
Proof.
  intros A d l x H. unfold put. destruct (size_max <? nlen l) eqn:L; [apply N.ltb_lt in L; lia|].
  rewrite N.eqb_refl. reflexivity.
Qed.
Lemma put_too_far : forall A (d : A) l x i, nlen l <= i -> max_index < i -> i <> size_max ->
  put d l x (Some i) = Throw LengthError.
Proof.
  intros A d l x i H1 H2 H3. unfold put, max_index in *.
  destruct (i <? nlen l) eqn:L; [apply N.ltb_lt in L; lia|].
  destruct (i =? size_max) eqn:E; [apply N.eqb_eq in E; contradiction|].
  destruct (2305843009213693951 <? i) eqn:G; [reflexivity|apply N.ltb_ge in G; lia].
Qed.

(* consequences of the documented store *)
Lemma store_append : forall A (d : A) l x, store_spec d l x None = l ++ [x].
Proof. reflexivity. Qed.

Lemma store_length : forall A (d : A) l x idx,
  nlen (store_spec d l x idx) =
    match idx with None => nlen l + 1 | Some i => if i <? nlen l then nlen l else i + 1 end.
Proof.
  intros A d l x [i|]; unfold store_spec, nlen.
  - destruct (i <? N.of_nat (length l)) eqn:L.
    + apply N.ltb_lt in L. rewrite !app_length, firstn_length, skipn_length. simpl. lia.
    + apply N.ltb_ge in L. rewrite !app_length, repeat_length. simpl. lia.
  - rewrite app_length. simpl. lia.
Qed.

(* the target holds exactly what was given *)
Lemma store_target : forall A (d : A) l x idx,
  nth_error (store_spec d l x idx)
            (match idx with None => length l | Some i => N.to_nat i end) = Some x.
Proof.
  intros A d l x [i|]; unfold store_spec.
  - destruct (i <? nlen l) eqn:L.
    + apply N.ltb_lt in L. unfold nlen in L.
      rewrite nth_error_app2; rewrite firstn_length; [|lia].
      replace (N.to_nat i - Nat.min (N.to_nat i) (length l))%nat with O by lia. reflexivity.
    + apply N.ltb_ge in L. unfold nlen in *.
      rewrite nth_error_app2 by lia. rewrite nth_error_app2; rewrite repeat_length; [|lia].
      replace (N.to_nat i - length l - N.to_nat (i - N.of_nat (length l)))%nat with O by lia. reflexivity.
  - rewrite nth_error_app2 by lia. rewrite Nat.sub_diag. reflexivity.
Qed.

(* every previously stored element other than the target is left unchanged, at its position *)
Lemma store_others : forall A (d : A) l x idx j y,
  nth_error l j = Some y -> (match idx with None => True | Some i => N.to_nat i <> j end) ->
  nth_error (store_spec d l x idx) j = Some y.
Proof.
  intros A d l x [i|] j y Hj Hne; unfold store_spec.
  - assert (Hl : (j < length l)%nat) by (apply nth_error_Some; congruence).
    destruct (i <? nlen l) eqn:L.
    + apply N.ltb_lt in L. unfold nlen in L.
      destruct (Nat.lt_ge_cases j (N.to_nat i)) as [Hlt|Hge].
      * rewrite nth_error_app1 by (rewrite firstn_length; lia). rewrite nth_error_firstn_lt by lia. exact Hj.
      * rewrite nth_error_app2 by (rewrite firstn_length; lia). rewrite firstn_length.
        replace (j - Nat.min (N.to_nat i) (length l))%nat with (Datatypes.S (j - N.to_nat i - 1)) by lia.
        cbn [app nth_error]. rewrite nth_error_skipn_add. replace (N.to_nat i + 1 + (j - N.to_nat i - 1))%nat with j by lia. exact Hj.
    + rewrite nth_error_app1 by lia. exact Hj.
  - rewrite nth_error_app1; [exact Hj|]. apply nth_error_Some. congruence.
Qed.

(* extending leaves the frames in between empty *)
Lemma store_gap : forall A (d : A) l x i j,
  nlen l <= i -> (length l <= j < N.to_nat i)%nat -> nth_error (store_spec d l x (Some i)) j = Some d.
Proof.
  intros A d l x i j H [H1 H2]. unfold store_spec.
  destruct (i <? nlen l) eqn:L; [apply N.ltb_lt in L; lia|]. unfold nlen in *.
  rewrite nth_error_app2 by lia. rewrite nth_error_app1 by (rewrite repeat_length; lia).
  apply nth_error_repeat. lia.
Qed.

(* ---------- at the level of the object: frame(), point(frames), analog(frames) ---------- *)
Definition same_frames_hdr (s s' : state) : Prop := frames s' = frames s /\ pro s' = pro s.
Lemma sfh_refl : forall s, same_frames_hdr s s. Proof. intros; split; reflexivity. Qed.
Lemma sfh_trans : forall a b c, same_frames_hdr a b -> same_frames_hdr b c -> same_frames_hdr a c.
Proof. unfold same_frames_hdr. intros a b c [H1 H2] [H3 H4]. split; congruence. Qed.

Ltac dmatch :=
  repeat match goal with
         | |- context [match ?o with Ok _ => _ | Throw _ => _ | UB _ => _ end] => destruct o
         end.

Lemma keeps_upd_param : forall g n f, keeps same_frames_hdr (upd_param g n f).
Proof.
  intros g n f s. unfold upd_param, bind, getS, lift, putS.
  dmatch; try exact I; try apply sfh_refl. split; reflexivity.
Qed.

Lemma same_tree_sfh : forall A (m : M state A), keeps same_tree m -> keeps same_frames_hdr m.
Proof.
  intros A m H s. specialize (H s). destruct (m s); auto; destruct H as [_ [H2 H3]]; split; auto.
Qed.

Ltac fstep :=
  match goal with
  | |- keeps _ (bind _ _) => apply (keeps_bind _ _ sfh_trans); [|intros ?]
  | |- keeps _ (ret _) => apply (keeps_ret _ _ sfh_refl)
  | |- keeps _ (throw _) => apply (keeps_throw _ _ sfh_refl)
  | |- keeps _ (ub _) => apply keeps_ub
  | |- keeps _ (lift _) => apply (keeps_lift _ _ sfh_refl)
  | |- keeps _ getS => apply (keeps_getS _ _ sfh_refl)
  | |- keeps _ (upd_param _ _ _) => apply keeps_upd_param
  | |- keeps _ (int0 _ _ _) => apply same_tree_sfh, keeps_int0
  | |- keeps _ (float0 _ _ _) => apply same_tree_sfh, keeps_float0
  | |- keeps _ (get_group _) => apply same_tree_sfh, keeps_get_group
  | |- keeps _ (get_param _ _) => apply same_tree_sfh, keeps_get_param
  | |- keeps _ (strs_of _ _) => unfold strs_of
  | |- keeps _ (update_header _ _ _ _) => apply same_tree_sfh, keeps_update_header
  | |- keeps _ (when ?b _) => unfold when; destruct b
  | |- keeps _ (if ?b then _ else _) => destruct b
  | |- keeps _ (match ?x with _ => _ end) => destruct x
  end.

Section WithOps.
Variable f_key : f32 -> outcome Z.
Variable f_tosize : f32 -> outcome N.
Variable f_div : f32 -> f32 -> f32.
Variable f_is_zero : f32 -> bool.

Lemma keeps_build_names : forall n i name_of,
  (forall j, keeps same_frames_hdr (name_of j)) -> keeps same_frames_hdr (build_names n i name_of).
Proof.
  induction n as [|n IH]; intros i name_of H; cbn [build_names].
  - fstep.
  - fstep; [apply H|]. fstep; [apply IH, H|]. fstep.
Qed.

Lemma keeps_update_parameters : forall newP newA,
  keeps same_frames_hdr (update_parameters f_key f_tosize f_div newP newA).
Proof.
  intros newP newA. unfold update_parameters.
  repeat first [ apply keeps_build_names; intros ? | fstep ].
Qed.

Ltac binv H := let a := fresh "a" in let s1 := fresh "s" in let H1 := fresh "Hb" in
  apply bind_ok in H; destruct H as [a [s1 [H1 H]]].

(* frame(f, idx), when accepted, stores exactly as documented: the frame sequence afterwards IS
   store_spec of the one before *)
Lemma api_frame_store : forall f idx s s',
  (forall i, idx = Some i -> i <= max_index) ->
  api_frame f_key f_tosize f_div f_is_zero f idx s = ROk tt s' ->
  frames s' = store_spec empty_frame (frames s) f idx.
Proof.
  intros f idx s s' Hi H. unfold api_frame in H.
  assert (K0 : forall k g n, keeps same_frames_hdr (int0 k g n)) by (intros; apply same_tree_sfh, keeps_int0).
  (* walk through the guards: none of them changes the state *)
  binv H. pose proof (K0 30%nat nm_POINT nm_USED s) as K. rewrite Hb in K. destruct K as [K _].
  binv H. assert (E1 : frames s1 = frames s0).
  { destruct (_ && _) in Hb0; cbv [throw ret] in Hb0; [discriminate|injection Hb0 as _ <-; reflexivity]. }
  binv H. assert (E2 : frames s2 = frames s1).
  { pose proof (same_tree_sfh _ _ (keeps_get_param nm_POINT nm_LABELS)) as Kp. unfold strs_of in Hb1.
    binv Hb1. specialize (Kp s1). rewrite Hb2 in Kp. destruct Kp as [Kp _].
    apply lift_ok in Hb1. destruct Hb1 as [_ ->]. exact Kp. }
  binv H. assert (E3 : frames s3 = frames s2).
  { destruct (forallb _ _) in Hb2; cbv [throw ret] in Hb2; [injection Hb2 as _ <-; reflexivity|discriminate]. }
  binv H. assert (E4 : frames s4 = frames s3).
  { destruct (negb _) in Hb3.
    - binv Hb3. pose proof (same_tree_sfh _ _ (keeps_float0 31%nat nm_POINT nm_RATE) s3) as Kp.
      rewrite Hb4 in Kp. destruct Kp as [Kp _].
      destruct (f_is_zero a4); cbv [throw ret] in Hb3; [discriminate|injection Hb3 as _ <-; exact Kp].
    - cbv [ret] in Hb3. injection Hb3 as _ <-. reflexivity. }
  binv H. assert (E5 : frames s5 = frames s4).
  { destruct (negb _) in Hb4.
    - binv Hb4. pose proof (same_tree_sfh _ _ (keeps_float0 32%nat nm_ANALOG nm_RATE) s4) as Kp.
      rewrite Hb5 in Kp. destruct Kp as [Kp _].
      destruct (f_is_zero a5); cbv [throw ret] in Hb4; [discriminate|injection Hb4 as _ <-; exact Kp].
    - cbv [ret] in Hb4. injection Hb4 as _ <-. reflexivity. }
  binv H. pose proof (K0 33%nat nm_ANALOG nm_USED s5) as K6. rewrite Hb5 in K6. destruct K6 as [E6 _].
  binv H. cbv [getS] in Hb6. injection Hb6 as <- <-.
  binv H. assert (E7 : s7 = s6).
  { destruct (fr_subs f) as [|sf0 t]; [cbv [ret] in Hb6; injection Hb6 as _ <-; reflexivity|].
    destruct (_ && _) in Hb6; cbv [throw ret] in Hb6; [discriminate|injection Hb6 as _ <-; reflexivity]. }
  subst s7.
  binv H. apply lift_ok in Hb7. destruct Hb7 as [Hput ->].
  binv H. cbv [putS] in Hb7. injection Hb7 as _ <-.
  pose proof (keeps_update_parameters [] [] (set_frames s6 a7)) as KU. rewrite H in KU. destruct KU as [KU _].
  cbn [set_frames frames] in KU. rewrite KU.
  rewrite (put_spec _ empty_frame (frames s6) f idx Hi) in Hput. injection Hput as <-.
  congruence.
Qed.

End WithOps.

(* ---------- adding a point column: every frame changes by exactly that column ---------- *)
Fixpoint zipw {A B C} (f : A -> B -> C) (l : list A) (m : list B) : list C :=
  match l, m with
  | a :: l', b :: m' => f a b :: zipw f l' m'
  | _, _ => []
  end.

Definition add_pts (idx k : nat) (o n : frame) : frame :=
  mkFrame (fr_pts o ++ firstn k (skipn idx (fr_pts n))) (fr_subs o).

Lemma at_skipn : forall A (l : list A) i x, at_ l i = Ok x -> skipn (N.to_nat i) l = x :: skipn (N.to_nat i + 1) l.
Proof.
  intros A l i x H. apply at_ok in H. destruct H as [_ H]. revert H. generalize (N.to_nat i). clear i.
  induction l as [|a l IH]; intros [|n] H; simpl in *; try discriminate.
  - injection H as <-. reflexivity.
  - apply IH, H.
Qed.

Lemma add_point_col_ok : forall idx news olds fs,
  add_point_col_partial idx news olds = (fs, None) ->
  (length olds <= length news)%nat /\ fs = zipw (add_pts (N.to_nat idx) 1) olds news.
Proof.
  intros idx news olds. revert news. induction olds as [|o ot IH]; intros news fs H; destruct news as [|n nt]; cbn [add_point_col_partial] in H.
  - injection H as <-. split; [simpl; lia|reflexivity].
  - injection H as <-. split; [simpl; lia|reflexivity].
  - discriminate.
  -
    destruct (at_ (fr_pts n) idx) as [p| |] eqn:E; try discriminate.
    destruct (add_point_col_partial idx nt ot) as [rest e] eqn:R. injection H as <- ->.
    destruct (IH nt rest R) as [L ->]. split; [simpl; lia|].
    cbn [zipw]. f_equal. unfold add_pts, add_point_to. f_equal.
    rewrite (at_skipn _ _ _ _ E). reflexivity.
Qed.

Lemma zipw_add_pts_compose : forall olds news idx k,
  (length olds <= length news)%nat ->
  (forall n, In n (firstn (length olds) news) -> (idx < length (fr_pts n))%nat) ->
  zipw (add_pts (idx + 1) k) (zipw (add_pts idx 1) olds news) news = zipw (add_pts idx (Datatypes.S k)) olds news.
Proof.
  induction olds as [|o ot IH]; intros news idx k L Hn; [reflexivity|].
  destruct news as [|n nt]; [simpl in L; lia|]. cbn [zipw]. f_equal.
  - unfold add_pts. cbn [fr_pts fr_subs]. f_equal. rewrite <- app_assoc. f_equal.
    assert (Hl : (idx < length (fr_pts n))%nat) by (apply Hn; left; reflexivity).
    destruct (nth_error (fr_pts n) idx) as [p|] eqn:E; [|apply nth_error_None in E; lia].
    assert (S1 : skipn idx (fr_pts n) = p :: skipn (idx + 1) (fr_pts n)).
    { clear -E. revert E. generalize (fr_pts n). intros l. revert idx. induction l as [|a l IH]; intros [|i] E; simpl in *; try discriminate.
      - injection E as <-. reflexivity.
      - apply IH, E. }
    rewrite S1. reflexivity.
  - apply IH; [simpl in L; lia|]. intros m Hm. apply Hn. right. exact Hm.
Qed.

Lemma add_point_col_has : forall idx news olds fs,
  add_point_col_partial idx news olds = (fs, None) ->
  forall n, In n (firstn (length olds) news) -> (N.to_nat idx < length (fr_pts n))%nat.
Proof.
  intros idx news olds. revert news. induction olds as [|o ot IH]; intros news fs H n Hn; destruct news as [|m nt]; cbn [add_point_col_partial] in H.
  - simpl in Hn. contradiction.
  - simpl in Hn. contradiction.
  - discriminate.
  -
    destruct (at_ (fr_pts m) idx) as [p| |] eqn:E; try discriminate.
    destruct (add_point_col_partial idx nt ot) as [rest e] eqn:R. injection H as <- ->.
    cbn [length firstn] in Hn. destruct Hn as [<-|Hn].
    + apply at_ok in E. destruct E as [E _]. unfold nlen in E. lia.
    + eapply IH; eauto.
Qed.

Lemma zipw_length : forall A B C (f : A -> B -> C) l m, (length l <= length m)%nat -> length (zipw f l m) = length l.
Proof. induction l as [|a l IH]; intros [|b m] H; simpl in *; try lia. f_equal. apply IH. lia. Qed.

Lemma zipw_add_pts_0 : forall olds news idx, (length olds <= length news)%nat ->
  zipw (add_pts idx 0) olds news = olds.
Proof.
  induction olds as [|o ot IH]; intros [|n nt] idx L; simpl in *; try lia; try reflexivity.
  f_equal; [|apply IH; lia]. unfold add_pts. cbn [firstn]. rewrite app_nil_r. destruct o; reflexivity.
Qed.

Lemma point_cols_spec : forall k idx news s s',
  (length (frames s) <= length news)%nat ->
  point_cols k idx news s = ROk tt s' ->
  hdr s' = hdr s /\ groups s' = groups s /\ pro s' = pro s /\
  frames s' = zipw (add_pts (N.to_nat idx) k) (frames s) news.
Proof.
  induction k as [|k IH]; intros idx news s s' L H; cbn [point_cols] in H.
  - cbv [ret] in H. injection H as <-. repeat split; auto. rewrite zipw_add_pts_0; auto.
  - apply bind_ok in H. destruct H as [s0 [s1 [Hg H]]]. cbv [getS] in Hg. injection Hg as <- <-.
    destruct (add_point_col_partial idx news (frames s)) as [fs e] eqn:P.
    apply bind_ok in H. destruct H as [u [s2 [Hp H]]]. cbv [putS] in Hp. injection Hp as _ <-.
    apply bind_ok in H. destruct H as [u2 [s3 [He H]]].
    destruct e as [x|]; [cbv [throw] in He; discriminate|]. cbv [ret] in He. injection He as _ <-.
    pose proof (add_point_col_ok _ _ _ _ P) as [L1 ->].
    pose proof (add_point_col_has _ _ _ _ P) as Hhas.
    apply IH in H; [|cbn [set_frames frames]; rewrite zipw_length; lia].
    cbn [set_frames frames hdr groups pro] in H. destruct H as [H1 [H2 [H3 H4]]].
    repeat split; auto. rewrite H4.
    replace (N.to_nat (idx + 1)) with (N.to_nat idx + 1)%nat by lia.
    apply zipw_add_pts_compose; auto.
Qed.

Section WithOps2.
Variable f_key : f32 -> outcome Z.
Variable f_tosize : f32 -> outcome N.
Variable f_div : f32 -> f32 -> f32.

Tactic Notation "bnv" hyp(H) "as" ident(a) ident(s1) ident(Hb) :=
  apply bind_ok in H; destruct H as [a [s1 [Hb H]]].

Lemma strs_of_state : forall g n s l s', strs_of g n s = ROk l s' -> s' = s.
Proof.
  intros g n s l s' H. unfold strs_of, get_param, get_group in H.
  bnv H as p s1 H1. bnv H1 as gr s2 H2. bnv H2 as s3 s4 H3. cbv [getS] in H3. injection H3 as <- <-.
  apply lift_ok in H2. destruct H2 as [_ ->]. apply lift_ok in H1. destruct H1 as [_ ->].
  apply lift_ok in H. destruct H as [_ ->]. reflexivity.
Qed.

(* point(frames), when accepted: same number of frames, every frame gains exactly the supplied
   points (all k of them, in order) and nothing else in it changes *)
Lemma api_point_col_spec : forall news s s',
  api_point_col f_key f_tosize f_div news s = ROk tt s' ->
  exists n0, nth_error news 0 = Some n0 /\ length news = length (frames s) /\
  frames s' = zipw (add_pts 0 (length (fr_pts n0))) (frames s) news.
Proof.
  intros news s s' H. unfold api_point_col in H.
  bnv H as s0 s1 Hg. cbv [getS] in Hg. injection Hg as <- <-.
  bnv H as u1 s1 Hc. destruct ((nlen news =? 0) || negb (nlen news =? nlen (frames s))) eqn:C; [cbv [throw] in Hc; discriminate|].
  cbv [ret] in Hc. injection Hc as _ <-.
  apply Bool.orb_false_iff in C. destruct C as [_ C]. apply Bool.negb_false_iff in C. apply N.eqb_eq in C.
  unfold nlen in C. apply Nat2N.inj in C.
  bnv H as n0 s2 Hn0. apply lift_ok in Hn0. destruct Hn0 as [Hn0 ->].
  bnv H as u2 s3 Hc2. destruct (nlen (fr_pts n0) =? 0); [cbv [throw] in Hc2; discriminate|]. cbv [ret] in Hc2. injection Hc2 as _ <-.
  bnv H as labels s4 Hl. apply strs_of_state in Hl. subst s4.
  bnv H as u3 s5 Hv. apply lift_ok in Hv. destruct Hv as [_ ->].
  bnv H as u4 s6 Hp. destruct u4. apply point_cols_spec in Hp; [|lia]. destruct Hp as [_ [_ [_ Hf]]].
  pose proof (keeps_update_parameters f_key f_tosize f_div [] [] s6) as KU. rewrite H in KU. destruct KU as [KU _].
  exists n0. split.
  - unfold idx_ in Hn0. destruct (0 <? nlen news); [|discriminate]. destruct (nth_error news (N.to_nat 0)) eqn:E0; inversion Hn0; subst. exact E0.
  - split; [exact C|]. rewrite KU, Hf. reflexivity.
Qed.

End WithOps2.
