(* Types.v — the value model of an ezc3d::c3d object: header, parameter tree, frames.
   Every field that influences later behaviour is here and has a public getter in the
   C++ (the driver's dump prints exactly these). *)
From EZ Require Import Base.
Local Open Scope N_scope.

Inductive ptype := TChar | TByte | TInt | TFloat | TNone.
Definition ptype_eqb (a b : ptype) : bool :=
  match a, b with
  | TChar, TChar | TByte, TByte | TInt, TInt | TFloat, TFloat | TNone, TNone => true
  | _, _ => false
  end.

(* ezc3d::ParametersNS::GroupNS::Parameter: the three value vectors coexist, the type says
   which one is live (the typed getters refuse the others) *)
Record param := mkParam {
  p_name : bstr; p_desc : bstr; p_lock : bool; p_type : ptype;
  p_dims : list N; p_ints : list Z; p_floats : list f32; p_strs : list bstr }.
Record group := mkGroup { g_name : bstr; g_desc : bstr; g_lock : bool; g_params : list param }.
Record prologue := mkPro { ps_start : N; ps_check : N; ps_blocks : N; ps_proc : N }.

Record header := mkHeader {
  h_zeros : N; h_paddr : N; h_check : N; h_points : N; h_meas : N;
  h_first : N; h_last : N; h_gap : N; h_scale : Z; h_dstart : N;
  h_byframe : N; h_rate : f32; h_e1 : Z; h_e2 : Z; h_e3 : Z; h_e4 : Z;
  h_keylab : N; h_keyblk : N; h_four : N; h_nev : N;
  h_evtime : list f32; h_evdisp : list N; h_evlab : list bstr }.

Record point := mkPoint { pt_name : bstr; pt_x : f32; pt_y : f32; pt_z : f32; pt_r : f32 }.
Record channel := mkChan { ch_name : bstr; ch_v : f32 }.
Definition subframe := list channel.
Record frame := mkFrame { fr_pts : list point; fr_subs : list subframe }.
Definition empty_frame : frame := mkFrame [] [].

Record state := mkState { hdr : header; pro : prologue; groups : list group; frames : list frame }.

(* record updates *)
Definition set_hdr (s : state) (h : header) : state := mkState h (pro s) (groups s) (frames s).
Definition set_groups (s : state) (g : list group) : state := mkState (hdr s) (pro s) g (frames s).
Definition set_frames (s : state) (f : list frame) : state := mkState (hdr s) (pro s) (groups s) f.

Definition h_set_points (h : header) (v : N) : header :=
  mkHeader (h_zeros h) (h_paddr h) (h_check h) v (h_meas h) (h_first h) (h_last h) (h_gap h) (h_scale h)
    (h_dstart h) (h_byframe h) (h_rate h) (h_e1 h) (h_e2 h) (h_e3 h) (h_e4 h) (h_keylab h) (h_keyblk h)
    (h_four h) (h_nev h) (h_evtime h) (h_evdisp h) (h_evlab h).
Definition h_set_meas (h : header) (v : N) : header :=
  mkHeader (h_zeros h) (h_paddr h) (h_check h) (h_points h) v (h_first h) (h_last h) (h_gap h) (h_scale h)
    (h_dstart h) (h_byframe h) (h_rate h) (h_e1 h) (h_e2 h) (h_e3 h) (h_e4 h) (h_keylab h) (h_keyblk h)
    (h_four h) (h_nev h) (h_evtime h) (h_evdisp h) (h_evlab h).
Definition h_set_first_last (h : header) (a b : N) : header :=
  mkHeader (h_zeros h) (h_paddr h) (h_check h) (h_points h) (h_meas h) a b (h_gap h) (h_scale h)
    (h_dstart h) (h_byframe h) (h_rate h) (h_e1 h) (h_e2 h) (h_e3 h) (h_e4 h) (h_keylab h) (h_keyblk h)
    (h_four h) (h_nev h) (h_evtime h) (h_evdisp h) (h_evlab h).
Definition h_set_byframe_raw (h : header) (v : N) : header :=
  mkHeader (h_zeros h) (h_paddr h) (h_check h) (h_points h) (h_meas h) (h_first h) (h_last h) (h_gap h) (h_scale h)
    (h_dstart h) v (h_rate h) (h_e1 h) (h_e2 h) (h_e3 h) (h_e4 h) (h_keylab h) (h_keyblk h)
    (h_four h) (h_nev h) (h_evtime h) (h_evdisp h) (h_evlab h).
Definition h_set_rate (h : header) (v : f32) : header :=
  mkHeader (h_zeros h) (h_paddr h) (h_check h) (h_points h) (h_meas h) (h_first h) (h_last h) (h_gap h) (h_scale h)
    (h_dstart h) (h_byframe h) v (h_e1 h) (h_e2 h) (h_e3 h) (h_e4 h) (h_keylab h) (h_keyblk h)
    (h_four h) (h_nev h) (h_evtime h) (h_evdisp h) (h_evlab h).

(* derived header getters (Header.cpp) *)
Definition h_nb_analogs (h : header) : N :=
  if h_byframe h =? 0 then 0 else h_meas h / h_byframe h.
Definition h_set_nb_analogs (h : header) (a : N) : header := h_set_meas h (wrap64 (a * h_byframe h)).
Definition h_nb_frames (h : header) : N :=
  if (h_points h =? 0) && (h_nb_analogs h =? 0) then 0
  else wrap64 (sub64 (h_last h) (h_first h) + 1).
(* Header::nbAnalogByFrame(n): keeps the channel count, rescales the samples per frame *)
Definition h_set_byframe (h : header) (n : N) : header :=
  let a := h_nb_analogs h in h_set_nb_analogs (h_set_byframe_raw h n) a.

Definition p_set_name (p : param) (n : bstr) := mkParam n (p_desc p) (p_lock p) (p_type p) (p_dims p) (p_ints p) (p_floats p) (p_strs p).
Definition p_set_desc (p : param) (d : bstr) := mkParam (p_name p) d (p_lock p) (p_type p) (p_dims p) (p_ints p) (p_floats p) (p_strs p).
Definition p_set_lock (p : param) (b : bool) := mkParam (p_name p) (p_desc p) b (p_type p) (p_dims p) (p_ints p) (p_floats p) (p_strs p).
Definition g_set_lock (g : group) (b : bool) := mkGroup (g_name g) (g_desc g) b (g_params g).
Definition g_set_params (g : group) (ps : list param) := mkGroup (g_name g) (g_desc g) (g_lock g) ps.
