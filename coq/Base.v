(* Base.v — shared types of the code-shaped model: bytes, strings, outcomes,
   the state/exception monad, the bounds-checked container idioms.
   No proofs here: the model must keep running when a proof breaks. *)
From Coq Require Export List NArith ZArith Bool.
Export ListNotations.
Local Open Scope N_scope.

Definition byte := N.             (* invariant: < 256 *)
Definition bstr := list byte.
Definition f32  := N.             (* IEEE-754 binary32 bit pattern, < 2^32 *)
(* r == 0 for a float: plus or minus zero (a NaN is not zero) *)
Definition f32_is_zero (r : f32) : bool := N.land r 2147483647 =? 0.
Definition usize := N.            (* size_t; arithmetic mod 2^64 where the code wraps *)

Definition two64 : N := 18446744073709551616.
Definition size_max : N := 18446744073709551615.
Definition wrap64 (n : N) : N := n mod two64.
(* size_t subtraction a - b *)
Definition sub64 (a b : N) : N := (a + two64 - (b mod two64)) mod two64.

(* implementation-defined narrowing to a 32-bit signed int (gcc: modulo 2^32) *)
Definition wrap32s (z : Z) : Z :=
  let m := (z mod 4294967296)%Z in
  if (m <? 2147483648)%Z then m else (m - 4294967296)%Z.
(* int -> size_t *)
Definition z_to_usize (z : Z) : N := Z.to_N (z mod 18446744073709551616)%Z.

Inductive exn := IosFailure | RangeError | OutOfRange | InvalidArgument | LengthError
               | RuntimeError | BadAlloc | OtherStd.

(* Undefined behaviour the C++ would run into: the model stops and names the site. *)
Inductive ub_tag := IdxOOB (site : nat) | EmptyVec (site : nat) | CastRange (site : nat)
                  | SignedOverflow (site : nat) | Fuel
                  | Blowup (site : nat).   (* work or memory proportional to a size the file merely declares *)

(* state + exception monad; a throw keeps the state reached so far (C10 is about it) *)
Inductive res (S A : Type) := ROk (a : A) (s : S) | RThrow (e : exn) (s : S) | RUB (t : ub_tag).
Arguments ROk {S A}. Arguments RThrow {S A}. Arguments RUB {S A}.
Definition M (S A : Type) := S -> res S A.
Definition ret {S A} (a : A) : M S A := fun s => ROk a s.
Definition bind {S A B} (m : M S A) (k : A -> M S B) : M S B :=
  fun s => match m s with ROk a s' => k a s' | RThrow e s' => RThrow e s' | RUB t => RUB t end.
Definition throw {S A} (e : exn) : M S A := fun s => RThrow e s.
Definition ub {S A} (t : ub_tag) : M S A := fun _ => RUB t.
Definition getS {S} : M S S := fun s => ROk s s.
Definition putS {S} (s : S) : M S unit := fun _ => ROk tt s.
Definition modS {S} (f : S -> S) : M S unit := fun s => ROk tt (f s).
(* try m; on a throw of class e run h from the state reached *)
Definition catch {S A} (m : M S A) (h : exn -> M S A) : M S A :=
  fun s => match m s with ROk a s' => ROk a s' | RThrow e s' => h e s' | RUB t => RUB t end.

Declare Scope m_scope.
Delimit Scope m_scope with M.
Notation "x <- m ;; k" := (bind m (fun x => k)) (at level 61, m at next level, right associativity) : m_scope.
Notation "m ;;; k" := (bind m (fun _ => k)) (at level 61, right associativity) : m_scope.

(* pure outcome (no state): used for look-ups and for the codec *)
Inductive outcome (A : Type) := Ok (a : A) | Throw (e : exn) | UB (t : ub_tag).
Arguments Ok {A}. Arguments Throw {A}. Arguments UB {A}.
Definition obind {A B} (m : outcome A) (k : A -> outcome B) : outcome B :=
  match m with Ok a => k a | Throw e => Throw e | UB t => UB t end.
Definition lift {S A} (o : outcome A) : M S A :=
  fun s => match o with Ok a => ROk a s | Throw e => RThrow e s | UB t => RUB t end.

(* ---- strings ---- *)
Fixpoint bstr_eqb (a b : bstr) : bool :=
  match a, b with
  | [], [] => true
  | x :: a', y :: b' => (x =? y) && bstr_eqb a' b'
  | _, _ => false
  end.

(* removeTrailingSpaces: drops every trailing 0x20 *)
Fixpoint rtrim (s : bstr) : bstr :=
  match s with
  | [] => []
  | c :: s' => match rtrim s' with
               | [] => if c =? 32 then [] else [c]
               | t => c :: t
               end
  end.

(* ::toupper in the C locale: a..z only *)
Definition upper_c (c : byte) : byte := if (97 <=? c) && (c <=? 122) then c - 32 else c.
Definition upper (s : bstr) : bstr := map upper_c s.

(* ---- containers ---- *)
Definition nlen {A} (l : list A) : N := N.of_nat (length l).

(* vector::at — the checked access used by every positional getter *)
Definition at_ {A} (l : list A) (i : N) : outcome A :=
  if i <? nlen l then
    match nth_error l (N.to_nat i) with Some x => Ok x | None => Throw OutOfRange end
  else Throw OutOfRange.
(* operator[] — unchecked *)
Definition idx_ {A} (site : nat) (l : list A) (i : N) : outcome A :=
  if i <? nlen l then
    match nth_error l (N.to_nat i) with Some x => Ok x | None => UB (IdxOOB site) end
  else UB (IdxOOB site).

Fixpoint replace_nth {A} (n : nat) (x : A) (l : list A) : list A :=
  match l, n with
  | [], _ => []
  | _ :: t, O => x :: t
  | h :: t, S n' => h :: replace_nth n' x t
  end.

(* the idiom shared by Data::frame, Points::point, Analogs::subframe, SubFrame::channel:
   idx = SIZE_MAX appends; otherwise resize to idx+1 when needed, then assign. *)
Definition put {A} (dflt : A) (l : list A) (x : A) (idx : option N) : outcome (list A) :=
  match idx with
  | None => Ok (l ++ [x])
  | Some i =>
      if i <? nlen l then Ok (replace_nth (N.to_nat i) x l)
      else if i =? size_max then Ok (l ++ [x])            (* SIZE_MAX is the append sentinel *)
      else if 2305843009213693951 <? i then Throw LengthError  (* resize beyond max_size() *)
      else Ok (l ++ repeat dflt (N.to_nat (i - nlen l)) ++ [x])
  end.

(* first element satisfying p, with its position *)
Fixpoint find_idx {A} (p : A -> bool) (l : list A) (k : N) : option N :=
  match l with
  | [] => None
  | x :: t => if p x then Some k else find_idx p t (k + 1)
  end.
Fixpoint find_last_idx {A} (p : A -> bool) (l : list A) (k : N) (acc : option N) : option N :=
  match l with
  | [] => acc
  | x :: t => find_last_idx p t (k + 1) (if p x then Some k else acc)
  end.

Fixpoint prodN (l : list N) : N := match l with [] => 1 | d :: t => d * prodN t end.
Fixpoint maxlen (l : list bstr) : N := match l with [] => 0 | s :: t => N.max (nlen s) (maxlen t) end.
