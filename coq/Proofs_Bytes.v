(* Proofs_Bytes.v — the byte assembly decodes exactly what the writer emits (C12).
   The domains are finite (2^8, 2^16): each statement is a forallb sweep evaluated by the
   kernel's vm_compute and lifted to the universally quantified statement. *)
From Coq Require Import Lia.
From EZ Require Import Base Bytes.
Local Open Scope Z_scope.
Ltac Zify.zify_post_hook ::= Z.div_mod_to_equations.

Fixpoint zrange (lo : Z) (n : nat) : list Z :=
  match n with O => [] | S n' => lo :: zrange (lo + 1) n' end.

Lemma zrange_in : forall n lo v, lo <= v < lo + Z.of_nat n -> In v (zrange lo n).
Proof.
  induction n as [|n IH]; intros lo v H; simpl in *.
  - lia.
  - destruct (Z.eq_dec lo v) as [E|E]; [left; exact E|right; apply IH; lia].
Qed.

Lemma sweep : forall (P : Z -> bool) lo n,
  forallb P (zrange lo (Z.to_nat n)) = true -> forall v, lo <= v < lo + n -> P v = true.
Proof.
  intros P lo n H v Hv. rewrite forallb_forall in H. apply H, zrange_in.
  rewrite Z2Nat.id; lia.
Qed.

Definition listN_eqb (a b : list N) : bool := bstr_eqb a b.
Lemma listN_eqb_eq : forall a b, listN_eqb a b = true -> a = b.
Proof.
  induction a as [|x a IH]; destruct b as [|y b]; simpl; intros H; try discriminate; auto.
  apply andb_prop in H; destruct H as [H1 H2]. apply N.eqb_eq in H1. subst. f_equal. apply IH, H2.
Qed.

(* ---- decode after encode ---- *)
Lemma hex2uint_le1 : forall u, 0 <= u < 256 -> hex2uint (le_bytes 1 u) = u.
Proof.
  intros u H. apply Z.eqb_eq.
  apply (sweep (fun v => hex2uint (le_bytes 1 v) =? v) 0 256); [vm_compute; reflexivity|lia].
Qed.

Lemma hex2uint_le2 : forall u, 0 <= u < 65536 -> hex2uint (le_bytes 2 u) = u.
Proof.
  intros u H. apply Z.eqb_eq.
  apply (sweep (fun v => hex2uint (le_bytes 2 v) =? v) 0 65536); [vm_compute; reflexivity|lia].
Qed.

Lemma hex2int_le1 : forall v, -128 <= v < 128 -> hex2int (le_bytes 1 v) = v.
Proof.
  intros v H. apply Z.eqb_eq.
  apply (sweep (fun v => hex2int (le_bytes 1 v) =? v) (-128) 256); [vm_compute; reflexivity|lia].
Qed.

Lemma hex2int_le2 : forall v, -32768 <= v < 32768 -> hex2int (le_bytes 2 v) = v.
Proof.
  intros v H. apply Z.eqb_eq.
  apply (sweep (fun v => hex2int (le_bytes 2 v) =? v) (-32768) 65536); [vm_compute; reflexivity|lia].
Qed.

(* ---- encode after decode: every byte pattern is re-emitted unchanged ---- *)
Definition bytes2 (w : Z) : list N := [Z.to_N (w mod 256); Z.to_N (w / 256)].

Lemma bytes2_surj : forall b0 b1 : N, (b0 < 256)%N -> (b1 < 256)%N ->
  [b0; b1] = bytes2 (Z.of_N b0 + 256 * Z.of_N b1) /\ 0 <= Z.of_N b0 + 256 * Z.of_N b1 < 65536.
Proof.
  intros b0 b1 H0 H1. unfold bytes2. split; [|lia].
  assert (E0 : (Z.of_N b0 + 256 * Z.of_N b1) mod 256 = Z.of_N b0) by lia.
  assert (E1 : (Z.of_N b0 + 256 * Z.of_N b1) / 256 = Z.of_N b1) by lia.
  rewrite E0, E1, !N2Z.id. reflexivity.
Qed.

Lemma le_hex2int_2 : forall b0 b1 : N, (b0 < 256)%N -> (b1 < 256)%N ->
  le_bytes 2 (hex2int [b0; b1]) = [b0; b1].
Proof.
  intros b0 b1 H0 H1. destruct (bytes2_surj b0 b1 H0 H1) as [E R]. rewrite E.
  apply listN_eqb_eq.
  apply (sweep (fun w => listN_eqb (le_bytes 2 (hex2int (bytes2 w))) (bytes2 w)) 0 65536);
    [vm_compute; reflexivity|lia].
Qed.

Lemma le_hex2uint_2 : forall b0 b1 : N, (b0 < 256)%N -> (b1 < 256)%N ->
  le_bytes 2 (hex2uint [b0; b1]) = [b0; b1].
Proof.
  intros b0 b1 H0 H1. destruct (bytes2_surj b0 b1 H0 H1) as [E R]. rewrite E.
  apply listN_eqb_eq.
  apply (sweep (fun w => listN_eqb (le_bytes 2 (hex2uint (bytes2 w))) (bytes2 w)) 0 65536);
    [vm_compute; reflexivity|lia].
Qed.

Lemma le_hex2int_1 : forall b0 : N, (b0 < 256)%N -> le_bytes 1 (hex2int [b0]) = [b0].
Proof.
  intros b0 H0. apply listN_eqb_eq.
  assert (E : [b0] = [Z.to_N (Z.of_N b0)]) by (rewrite N2Z.id; reflexivity).
  rewrite E.
  apply (sweep (fun w => listN_eqb (le_bytes 1 (hex2int [Z.to_N w])) [Z.to_N w]) 0 256);
    [vm_compute; reflexivity|lia].
Qed.

Lemma le_hex2uint_1 : forall b0 : N, (b0 < 256)%N -> le_bytes 1 (hex2uint [b0]) = [b0].
Proof.
  intros b0 H0. apply listN_eqb_eq.
  assert (E : [b0] = [Z.to_N (Z.of_N b0)]) by (rewrite N2Z.id; reflexivity).
  rewrite E.
  apply (sweep (fun w => listN_eqb (le_bytes 1 (hex2uint [Z.to_N w])) [Z.to_N w]) 0 256);
    [vm_compute; reflexivity|lia].
Qed.

(* one- and two-byte assemblies never touch the operations C++ leaves undefined *)
Lemma hex2uint_noflag_12 : forall bs, (length bs <= 2)%nat -> hex2uint_flag bs = false.
Proof.
  intros bs H. destruct bs as [|a [|b [|c t]]]; simpl in *; try reflexivity; lia.
Qed.

(* ranges of the decoders: what the readers hand to the rest of the loader *)
Lemma hex2int_2_range : forall b0 b1 : N, (b0 < 256)%N -> (b1 < 256)%N ->
  -32768 <= hex2int [b0; b1] < 32768.
Proof.
  intros b0 b1 H0 H1. destruct (bytes2_surj b0 b1 H0 H1) as [E R]. rewrite E.
  assert (X : ((-32768 <=? hex2int (bytes2 (Z.of_N b0 + 256 * Z.of_N b1))) &&
               (hex2int (bytes2 (Z.of_N b0 + 256 * Z.of_N b1)) <? 32768)) = true).
  { apply (sweep (fun w => (-32768 <=? hex2int (bytes2 w)) && (hex2int (bytes2 w) <? 32768)) 0 65536);
      [vm_compute; reflexivity|lia]. }
  apply andb_prop in X. destruct X as [X1 X2]. lia.
Qed.

(* floats are never assembled: a 4-byte pattern is carried as the number its bytes spell *)
Definition f32_of_bytes (bs : list N) : N :=
  match bs with
  | [a; b; c; d] => (a + 256 * (b + 256 * (c + 256 * d)))%N
  | _ => 0%N
  end.

Lemma f32_roundtrip : forall v : N, (v < 4294967296)%N -> f32_of_bytes (le_bytesN 4 v) = v.
Proof.
  intros v H. unfold le_bytesN. cbn [le_bytes f32_of_bytes].
  set (z := Z.of_N v). assert (Hz : 0 <= z < 4294967296) by (unfold z; lia).
  assert (Ev : v = Z.to_N z) by (unfold z; rewrite N2Z.id; reflexivity).
  rewrite Ev. clearbody z. clear Ev H v.
  set (q1 := z / 256). set (q2 := q1 / 256). set (q3 := q2 / 256).
  assert (H1 : z = 256 * q1 + z mod 256) by (unfold q1; apply Z.div_mod; lia).
  assert (H2 : q1 = 256 * q2 + q1 mod 256) by (unfold q2; apply Z.div_mod; lia).
  assert (H3 : q2 = 256 * q3 + q2 mod 256) by (unfold q3; apply Z.div_mod; lia).
  assert (B0 : 0 <= z mod 256 < 256) by (apply Z.mod_pos_bound; lia).
  assert (B1 : 0 <= q1 mod 256 < 256) by (apply Z.mod_pos_bound; lia).
  assert (B2 : 0 <= q2 mod 256 < 256) by (apply Z.mod_pos_bound; lia).
  assert (B3 : 0 <= q3 mod 256 < 256) by (apply Z.mod_pos_bound; lia).
  assert (Q3 : 0 <= q3 < 256) by lia.
  assert (E3 : q3 mod 256 = q3) by (apply Z.mod_small; lia).
  rewrite E3.
  set (r0 := z mod 256) in *. set (r1 := q1 mod 256) in *. set (r2 := q2 mod 256) in *.
  clearbody r0 r1 r2 q1 q2 q3. lia.
Qed.

Lemma f32_bytes_roundtrip : forall a b c d : N,
  (a < 256)%N -> (b < 256)%N -> (c < 256)%N -> (d < 256)%N ->
  le_bytesN 4 (f32_of_bytes [a; b; c; d]) = [a; b; c; d].
Proof.
  intros a b c d Ha Hb Hc Hd. unfold le_bytesN, f32_of_bytes. cbn [le_bytes].
  set (z := Z.of_N (a + 256 * (b + 256 * (c + 256 * d)))).
  assert (Ez : z = Z.of_N a + 256 * (Z.of_N b + 256 * (Z.of_N c + 256 * Z.of_N d))) by (unfold z; lia).
  clearbody z.
  assert (E0 : z mod 256 = Z.of_N a) by lia.
  assert (Q1 : z / 256 = Z.of_N b + 256 * (Z.of_N c + 256 * Z.of_N d)) by lia.
  rewrite E0, Q1.
  assert (E1 : (Z.of_N b + 256 * (Z.of_N c + 256 * Z.of_N d)) mod 256 = Z.of_N b) by lia.
  assert (Q2 : (Z.of_N b + 256 * (Z.of_N c + 256 * Z.of_N d)) / 256 = Z.of_N c + 256 * Z.of_N d) by lia.
  rewrite E1, Q2.
  assert (E2 : (Z.of_N c + 256 * Z.of_N d) mod 256 = Z.of_N c) by lia.
  assert (Q3 : (Z.of_N c + 256 * Z.of_N d) / 256 = Z.of_N d) by lia.
  rewrite E2, Q3.
  assert (E3 : Z.of_N d mod 256 = Z.of_N d) by lia.
  rewrite E3, !N2Z.id. reflexivity.
Qed.
