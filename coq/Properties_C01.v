(* Properties_C01.v — C01: build -> save -> load returns the same content.
   FULL STATEMENT, PROVED (C01_load_save): for every object s whose header, parameter tree and frames are well formed
   (the capacity limits of the format, no placeholder groups, header agreeing with the parameters, uniform frames),
   load (save s) = Ok (reloaded s ...): the header with the data-start word, the canonical prologue, the tree with
   upper-cased names and POINT:DATA_START = first data block, every x, y, z, residual and analog sample bit for bit with
   the names bound from the labels.  Its hypotheses are shown satisfiable on an object with two frames
   (C01_load_save_nonvacuous, obtained FROM the theorem, not by running load).  The stages below are its parts.
   What the hypotheses exclude is listed in DESIGN.md 0.4 (placeholder groups of loaded files, non-zero reserved header
   words, content beyond capacity, names differing only by case).
   Decided today by the C01 check on generated histories (direct oracle on the real library + byte
   and dump correspondence with the model).  Proved in Coq, for all inputs: the layout of the written
   file (C03), the round trip of the whole data section — which carries every x, y, z, RESIDUAL and
   analog sample — of every scalar, and of every parameter record and group record (Proofs_Record.v: Parameter::read
   on the bytes of Parameter::write returns the parameter, for every well-formed parameter of every type and
   dimension), and of the whole PARAMETER SECTION: Parameters::Parameters(file) on the file written by c3d::write returns
   the prologue and the tree (names upper-cased, POINT:DATA_START holding the first data block), for every tree of
   well-formed groups and parameters without placeholder groups (C01_parameter_section; hypotheses met by the new object,
   C01_parameter_section_nonvacuous).  Remaining, validated but not proved: the 24 header fields, and the composition
   into load (save s). *)
From Coq Require Import Lia ZifyN.
From EZ Require Import Base Bytes Types Api Enc Dec Float32 Run Proofs_Bytes Proofs_Codec Proofs_Section Proofs_Record Proofs_Chain Proofs_ChainW Proofs_HeaderCodec Proofs_RoundTrip Proofs_Decide Run_Decide Proofs_PointsOnly.
Local Open Scope N_scope.

(* the frames of a saved object come back bit for bit: the data section written by save is read by the
   frame reader as the same frames (names bound by position) *)
Theorem C01_partial_frames : forall fs np ns nc pn an st r,
  Forall (uniform np ns nc) fs -> st_fail st = false -> st_rest st = data_section fs ++ r ->
  rd_many (length fs) (frame_reader np ns nc pn an) st =
    Ok (map (rename_frame pn an) fs, adv st (length fs * (16 * np + 4 * nc * ns)) r).
Proof. exact data_section_roundtrip. Qed.
Print Assumptions C01_partial_frames.

(* and that data section sits exactly after the blocks the header's data-start word announces *)
Theorem C01_partial_data_position : forall s bytes, wf_header (hdr s) -> save s = Ok bytes ->
  exists sec blocks, section_bytes (pro s) (groups s) = Ok (sec, blocks) /\
    bytes = header_bytes (hdr s) (blocks + 1) ++ sec ++ data_section (frames s) /\
    length (header_bytes (hdr s) (blocks + 1)) = 512%nat /\ nlen sec = 512 * (blocks - 1) /\
    nlen bytes = 512 * blocks + nlen (data_section (frames s)).
Proof. exact save_layout. Qed.
Print Assumptions C01_partial_data_position.

(* every parameter written by save is read back by the loader as the same parameter (name upper-cased): type,
   lock flag, dimensions, every integer / byte / float / string value, description.  wf_param is the list of the
   format's capacity limits (name 1..127 characters, description <= 255, <= 255 dimensions of <= 255 entries, 16-bit
   integers, strings without NUL or trailing spaces not longer than their declared width, values covering the dimensions). *)
Theorem C01_partial_parameter_record : forall p gid, wf_param p -> bstr_eqb (p_name p) nm_DATA_START = false ->
  exists b0 b1 bytes, param_record p gid = Ok (b0 :: b1 :: bytes, None) /\ b1 = low8 gid /\
    forall st r, st_fail st = false -> st_rest st = bytes ++ r ->
      exists nxt, read_param (hex2int [b0]) st = Ok ((upper_name p, nxt), adv st (length bytes) r).
Proof. exact param_record_roundtrip. Qed.
Print Assumptions C01_partial_parameter_record.

Theorem C01_partial_group_record : forall g old st r,
  wf_group_hdr g -> st_fail st = false ->
  st_rest st = upper (g_name g) ++ le_bytes 2 (3 + zlen (g_desc g))%Z ++ [low8 (zlen (g_desc g))] ++ g_desc g ++ r ->
  read_group old (hex2int [name_len_byte (g_name g) (g_lock g)]) st =
    Ok ((mkGroup (upper (g_name g)) (desc_after g old) (g_lock g) (g_params old),
         wrap32s (Z.of_N (st_pos st + N.of_nat (length (g_name g)) + 2) + (3 + zlen (g_desc g)) - 2)),
        adv st (length (g_name g) + 2 + (1 + length (g_desc g))) r).
Proof. exact read_group_written. Qed.
Print Assumptions C01_partial_group_record.

(* THE PARAMETER SECTION: write, then read *)
Theorem C01_parameter_section : forall h pr gs sec blocks hb data st,
  ok_tree gs -> (nds (recs_of gs 1) <= 1)%nat ->
  (forall g, In g gs -> is_placeholder g = false /\ group_ok g) ->
  section_bytes pr gs = Ok (sec, blocks) -> blocks + 1 < 256 -> ps_start pr = 1 ->
  Forall wf_item (items_v gs 1 (blocks + 1)) ->
  h_paddr h = 2 -> h_zeros h = 0 -> length hb = 512%nat ->
  st_fail st = false -> st_file st = hb ++ sec ++ data ->
  exists st', read_parameters h st = Ok ((mkPro 1 80 (blocks - 1) 84, map (canon_g (blocks + 1)) gs), st') /\
    st_fail st' = false /\ st_file st' = st_file st.
Proof. exact read_parameters_written. Qed.
Print Assumptions C01_parameter_section.

(* the written section is the prologue, the records of the tree in order, and 1..512 bytes of zero padding *)
Theorem C01_section_is_its_records : forall pr gs sec blocks,
  ok_tree gs -> (nds (recs_of gs 1) <= 1)%nat -> section_bytes pr gs = Ok (sec, blocks) -> blocks + 1 < 256 ->
  exists pad, 1 <= pad <= 512 /\
    sec = [low8 (Z.of_N (ps_start pr)); 80; low8 (Z.of_N (blocks - 1)); 84]
          ++ concat (map item_bytes (items_v gs 1 (blocks + 1))) ++ repeat 0 (N.to_nat pad).
Proof. exact section_canonical. Qed.
Print Assumptions C01_section_is_its_records.

(* non-vacuity: the new object meets every hypothesis of C01_parameter_section (its section has 2 blocks) *)
Ltac wfp := unfold wf_param, name_ok, desc_ok, dims_ok, typed_ok, str_ok, no_nul, int16, int8, wf32, byte_ok, LIMC; cbn;
  repeat split; try lia; try discriminate; repeat constructor; try lia; try discriminate.
Example C01_parameter_section_nonvacuous :
  ok_tree (groups init) /\ (exists sec, section_bytes (pro init) (groups init) = Ok (sec, 2)) /\
  (nds (recs_of (groups init) 1) <= 1)%nat /\
  (forall g, In g (groups init) -> is_placeholder g = false /\ group_ok g) /\
  Forall wf_item (items_v (groups init) 1 3) /\ ps_start (pro init) = 1.
Proof.
  split.
  { intros g Hg Pl. cbn in Hg.
    repeat (destruct Hg as [<-|Hg]; [split; [unfold wf_group_hdr, name_ok, desc_ok, no_nul; cbn; repeat split; try lia; repeat constructor; discriminate|
       intros p Hp; cbn in Hp; repeat (destruct Hp as [<-|Hp]; [unfold ok_param; cbn; first [split; reflexivity | wfp]|]); destruct Hp]|]).
    destruct Hg. }
  split; [eexists; vm_compute; reflexivity|].
  split; [vm_compute; lia|]. split.
  - intros g Hg. cbn in Hg.
    repeat (destruct Hg as [<-|Hg]; [split; [reflexivity|split; [cbn; repeat constructor; cbn; intuition discriminate|intros p Hp; cbn in Hp; repeat (destruct Hp as [<-|Hp]; [discriminate|]); destruct Hp]]|]).
    destruct Hg.
  - split; [|reflexivity].
    cbn [items_v init groups init_groups is_placeholder g_name g_params nlen length N.of_nat N.eqb andb map app item_of_param is_ds].
    repeat (apply Forall_cons); try apply Forall_nil;
      (cbn; first [ split; [lia|unfold wf_group_hdr, name_ok, desc_ok, no_nul; cbn; repeat split; try lia; repeat constructor; discriminate]
                  | split; [lia|split; [wfp|cbn; lia]] ]).
Qed.
Print Assumptions C01_parameter_section_nonvacuous.

(* non-vacuity: parameters of each type are well formed (a 2 x 3 string matrix, a 2 x 2 integer matrix, a float scalar) *)
Example C01_wf_param_nonvacuous :
  wf_param (mkParam [76;65;66;69;76;83] [100] true TChar [3; 2] [] [] [[97;98]; [99]]) /\
  wf_param (mkParam [90;69;82;79] [] false TInt [2; 2] [1; -32768; 32767; 0]%Z [] []) /\
  wf_param (mkParam [82;65;84;69] [] false TFloat [1] [] [1120403456] []).
Proof.
  unfold wf_param, name_ok, desc_ok, dims_ok, typed_ok, str_ok, no_nul, int16, wf32, byte_ok, LIMC. cbn.
  repeat split; try lia; try discriminate; repeat constructor; try lia; try discriminate.
Qed.
Print Assumptions C01_wf_param_nonvacuous.

(* witness of the repaired defect (residual lost on every copy): the model of the repaired code keeps it
   through frame(), save and load *)
Example C01_residual_kept :
  let rate := mkParam nm_RATE [] false TFloat [1] [] [1120403456] [] in
  let f := mkFrame [mkPoint [97] 1065353216 1073741824 1077936128 1082130432] [] in
  exists s1 s2 s3 bytes s4, step_x init (OPoint [97]) = ROk tt s1 /\ step_x s1 (OParam nm_POINT rate) = ROk tt s2 /\
    step_x s2 (OFrame f None) = ROk tt s3 /\ save_x s3 = Ok bytes /\ load_x bytes = Ok s4 /\
    map (fun fr => map pt_r (fr_pts fr)) (frames s4) = [[1082130432]].
Proof.
  do 5 eexists.
  split; [vm_compute; reflexivity|]. split; [vm_compute; reflexivity|]. split; [vm_compute; reflexivity|].
  split; [vm_compute; reflexivity|]. split; [vm_compute; reflexivity|]. vm_compute. reflexivity.
Qed.
Print Assumptions C01_residual_kept.

(* ---------------- THE FULL STATEMENT ---------------- *)
Theorem C01_load_save : forall f_key f_tosize f_div s bytes sec blocks pn an,
  save s = Ok bytes -> section_bytes (pro s) (groups s) = Ok (sec, blocks) ->
  wf_hdr (hdr s) -> wf_header (hdr s) ->
  ok_tree (groups s) -> (nds (recs_of (groups s) 1) <= 1)%nat ->
  (forall g, In g (groups s) -> is_placeholder g = false /\ group_ok g) ->
  blocks + 1 < 256 -> ps_start (pro s) = 1 ->
  Forall wf_item (items_v (groups s) 1 (blocks + 1)) ->
  (let s1 := mkState (with_dstart (hdr s) (blocks + 1)) (mkPro 1 80 (blocks - 1) 84) (map (canon_g (blocks + 1)) (groups s)) [] in
   update_header f_key f_tosize f_div false s1 = ROk tt s1) ->
  (let h := with_dstart (hdr s) (blocks + 1) in let gs := map (canon_g (blocks + 1)) (groups s) in
   h_nb_frames h = nlen (frames s) /\ nlen (frames s) <= max_frames_vec /\
   nlen (frames s) * (1 + 4 * h_points h + h_byframe h * (1 + h_nb_analogs h)) <= 1048576 /\
   (if 0 <? h_points h then obind (group_named gs nm_POINT) (fun g => obind (param_named g nm_LABELS) values_as_string) = Ok pn else pn = []) /\
   (if 0 <? h_nb_analogs h then obind (group_named gs nm_ANALOG) (fun g => obind (param_named g nm_LABELS) values_as_string) = Ok an else an = []) /\
   (frames s <> [] -> (h_scale h < 0)%Z) /\
   Forall (uniform (N.to_nat (h_points h)) (N.to_nat (h_byframe h)) (N.to_nat (h_nb_analogs h))) (frames s)) ->
  load f_key f_tosize f_div bytes = Ok (reloaded s blocks pn an).
Proof. exact load_save. Qed.
Print Assumptions C01_load_save.

(* the same with the agreement of header and parameters stated as a predicate (header_agrees: rate keys equal, point and
   channel counts, sub-frames per frame = ratio of the rates, frame count) instead of "updateHeader is a no-op" *)
Theorem C01_load_save_declarative : forall f_key f_tosize f_div s bytes sec blocks pn an,
  save s = Ok bytes -> section_bytes (pro s) (groups s) = Ok (sec, blocks) ->
  wf_hdr (hdr s) -> wf_header (hdr s) ->
  ok_tree (groups s) -> (nds (recs_of (groups s) 1) <= 1)%nat ->
  (forall g, In g (groups s) -> is_placeholder g = false /\ group_ok g) ->
  blocks + 1 < 256 -> ps_start (pro s) = 1 ->
  Forall wf_item (items_v (groups s) 1 (blocks + 1)) ->
  header_agrees f_key f_tosize f_div (map (canon_g (blocks + 1)) (groups s)) (with_dstart (hdr s) (blocks + 1)) ->
  (let h := with_dstart (hdr s) (blocks + 1) in let gs := map (canon_g (blocks + 1)) (groups s) in
   h_nb_frames h = nlen (frames s) /\ nlen (frames s) <= max_frames_vec /\
   nlen (frames s) * (1 + 4 * h_points h + h_byframe h * (1 + h_nb_analogs h)) <= 1048576 /\
   (if 0 <? h_points h then obind (group_named gs nm_POINT) (fun g => obind (param_named g nm_LABELS) values_as_string) = Ok pn else pn = []) /\
   (if 0 <? h_nb_analogs h then obind (group_named gs nm_ANALOG) (fun g => obind (param_named g nm_LABELS) values_as_string) = Ok an else an = []) /\
   (frames s <> [] -> (h_scale h < 0)%Z) /\
   Forall (uniform (N.to_nat (h_points h)) (N.to_nat (h_byframe h)) (N.to_nat (h_nb_analogs h))) (frames s)) ->
  load f_key f_tosize f_div bytes = Ok (reloaded s blocks pn an).
Proof. exact load_save_agrees. Qed.
Print Assumptions C01_load_save_declarative.

(* the header stage on its own *)
Theorem C01_header_block : forall h d st rest, wf_hdr h -> wf_header h -> u16 d ->
  st_fail st = false -> st_file st = header_bytes h d ++ rest ->
  read_header st = Ok (with_dstart h d, mkStream (st_file st) 512 rest false).
Proof. exact read_header_written. Qed.
Print Assumptions C01_header_block.

(* non-vacuity: an object with a declared point, a rate and two frames meets every hypothesis; the conclusion is
   obtained from the theorem *)
Definition demo_run : option state :=
  let rate := mkParam nm_RATE [] false TFloat [1] [] [1120403456] [] in
  let f := mkFrame [mkPoint [97] 1065353216 1073741824 1077936128 1082130432] [] in
  match step_x init (OPoint [97]) with ROk _ s1 =>
  match step_x s1 (OParam nm_POINT rate) with ROk _ s2 =>
  match step_x s2 (OFrame f None) with ROk _ s3 =>
  match step_x s3 (OFrame f None) with ROk _ s4 => Some s4 | _ => None end | _ => None end | _ => None end | _ => None end.
Definition demo_state : state := Eval vm_compute in match demo_run with Some s => s | None => init end.


Lemma demo_section : exists sec, section_bytes (pro demo_state) (groups demo_state) = Ok (sec, 2).
Proof. eexists. vm_compute. reflexivity. Qed.
Print Assumptions demo_section.

Lemma demo_hdr : wf_hdr (hdr demo_state) /\ wf_header (hdr demo_state).
Proof.
  unfold wf_hdr, wf_header, u16, int32, frame_no_ok, wf32, lab_ok, no_nul. cbn.
  repeat split; try lia; try reflexivity; repeat constructor; cbn; try lia.
Qed.
Print Assumptions demo_hdr.

Lemma demo_tree :
  ok_tree (groups demo_state) /\ (nds (recs_of (groups demo_state) 1) <= 1)%nat /\
  (forall g, In g (groups demo_state) -> is_placeholder g = false /\ group_ok g) /\
  Forall wf_item (items_v (groups demo_state) 1 3).
Proof.
  split.
  { intros g Hg Pl. cbn in Hg.
    repeat (destruct Hg as [<-|Hg]; [split; [unfold wf_group_hdr, name_ok, desc_ok, no_nul; cbn; repeat split; try lia; repeat constructor; discriminate|
       intros p Hp; cbn in Hp; repeat (destruct Hp as [<-|Hp]; [unfold ok_param; cbn; first [split; reflexivity | wfp]|]); destruct Hp]|]).
    destruct Hg. }
  split; [vm_compute; lia|]. split.
  - intros g Hg. cbn in Hg.
    repeat (destruct Hg as [<-|Hg]; [split; [reflexivity|split; [cbn; repeat constructor; cbn; intuition discriminate|intros p Hp; cbn in Hp; repeat (destruct Hp as [<-|Hp]; [discriminate|]); destruct Hp]]|]).
    destruct Hg.
  - cbn [items_v demo_state groups is_placeholder g_name g_params nlen length N.of_nat N.eqb andb map app item_of_param is_ds].
    repeat (apply Forall_cons); try apply Forall_nil;
      (cbn; first [ split; [lia|unfold wf_group_hdr, name_ok, desc_ok, no_nul; cbn; repeat split; try lia; repeat constructor; discriminate]
                  | split; [lia|split; [wfp|cbn; lia]] ]).
Qed.
Print Assumptions demo_tree.

Lemma demo_update_noop :
  let s1 := mkState (with_dstart (hdr demo_state) 3) (mkPro 1 80 1 84) (map (canon_g 3) (groups demo_state)) [] in
  update_header_x false s1 = ROk tt s1.
Proof. vm_compute. reflexivity. Qed.
Print Assumptions demo_update_noop.

Lemma demo_agrees : header_agrees f_key_impl f_tosize_impl f_div_impl (map (canon_g 3) (groups demo_state)) (with_dstart (hdr demo_state) 3).
Proof.
  unfold header_agrees. do 6 eexists.
  split; [vm_compute; reflexivity|]. split; [vm_compute; reflexivity|]. split; [vm_compute; reflexivity|].
  split; [vm_compute; reflexivity|]. split; [vm_compute; reflexivity|]. split; [vm_compute; reflexivity|].
  split; [vm_compute; discriminate|]. split.
  - right. eexists. split; [vm_compute; reflexivity|]. split; [vm_compute; reflexivity|]. vm_compute. reflexivity.
  - split; [vm_compute; reflexivity|]. split; [vm_compute; reflexivity|]. split; [vm_compute; reflexivity|]. vm_compute. reflexivity.
Qed.
Print Assumptions demo_agrees.

Lemma demo_data :
  let h := with_dstart (hdr demo_state) 3 in let gs := map (canon_g 3) (groups demo_state) in
  h_nb_frames h = nlen (frames demo_state) /\ nlen (frames demo_state) <= max_frames_vec /\
  nlen (frames demo_state) * (1 + 4 * h_points h + h_byframe h * (1 + h_nb_analogs h)) <= 1048576 /\
  (if 0 <? h_points h then obind (group_named gs nm_POINT) (fun g => obind (param_named g nm_LABELS) values_as_string) = Ok [[97]] else [[97]] = []) /\
  (if 0 <? h_nb_analogs h then obind (group_named gs nm_ANALOG) (fun g => obind (param_named g nm_LABELS) values_as_string) = Ok [] else @nil bstr = []) /\
  (frames demo_state <> [] -> (h_scale h < 0)%Z) /\
  Forall (uniform (N.to_nat (h_points h)) (N.to_nat (h_byframe h)) (N.to_nat (h_nb_analogs h))) (frames demo_state).
Proof.
  cbv zeta. split; [vm_compute; reflexivity|]. split; [vm_compute; discriminate|]. split; [vm_compute; discriminate|].
  split; [vm_compute; reflexivity|]. split; [vm_compute; reflexivity|]. split; [intros _; vm_compute; reflexivity|].
  unfold uniform, wf_point, wf_chan, wf32. cbn. repeat constructor; cbn; lia.
Qed.
Print Assumptions demo_data.

(* the round trip on the demo object, obtained from the theorem (not by running load) *)
Example C01_load_save_nonvacuous : exists bytes, save_x demo_state = Ok bytes /\ load_x bytes = Ok (reloaded demo_state 2 [[97]] []).
Proof.
  destruct demo_section as [sec Hs]. destruct demo_hdr as [Wh Wl]. destruct demo_tree as (Hok & Hn & Hg & Wf).
  assert (Sv : exists bytes, save_x demo_state = Ok bytes) by (unfold save_x, save; rewrite Hs; eexists; reflexivity).
  destruct Sv as [bytes Sv]. exists bytes. split; [exact Sv|].
  exact (load_save f_key_impl f_tosize_impl f_div_impl demo_state bytes sec 2 [[97]] [] Sv Hs Wh Wl Hok Hn Hg eq_refl eq_refl Wf demo_update_noop demo_data).
Qed.
Print Assumptions C01_load_save_nonvacuous.

(* the hypotheses of C01_load_save as ONE computable predicate (Proofs_Decide.v: every well-formedness predicate reflected by
   a boolean function, the header agreement computed): where it answers true the round trip holds.  The predicate is
   extracted (ExtractX.v) and evaluated by the check on every object it saves: the evidence reports on how many of the
   compared objects the theorem applies, and on those the implementation is compared with `reloaded`. *)
Theorem C01_decided : forall s, ls_ok_x s = true ->
  exists bytes blocks pn an, save_x s = Ok bytes /\ load_x bytes = Ok (reloaded s blocks pn an).
Proof.
  intros s H. destruct (ls_ok_load_save f_key_impl f_tosize_impl f_div_impl s H) as (bytes & blocks & pn & an & _ & Sv & Ld).
  exists bytes, blocks, pn, an. split; [exact Sv|exact Ld].
Qed.
Print Assumptions C01_decided.

Example C01_decided_nonvacuous : ls_ok_x demo_state = true.
Proof. vm_compute. reflexivity. Qed.
Print Assumptions C01_decided_nonvacuous.

(* the same for a data set WITHOUT channels whose frames hold fewer (or more) empty sub-frames than the header announces — what
   the API builds when ANALOG:RATE is set and only points are stored: the file loads to the object with every frame's sub-frames
   replaced by the header's number of empty ones (normalised: no point and no value changes, normalised_points) *)
Theorem C01_decided_points_only : forall s, lsn_ok_x s = true ->
  exists bytes blocks pn an, save_x s = Ok bytes /\ load_x bytes = Ok (reloaded (normalised s) blocks pn an).
Proof. intros s H. exact (lsn_ok_load_save f_key_impl f_tosize_impl f_div_impl s H). Qed.
Print Assumptions C01_decided_points_only.
Theorem C01_normalised_keeps_points : forall s, map fr_pts (frames (normalised s)) = map fr_pts (frames s).
Proof. exact normalised_points. Qed.
Print Assumptions C01_normalised_keeps_points.
Theorem C01_normalised_with_channels : forall s, h_nb_analogs (hdr s) <> 0 -> normalised s = s.
Proof. exact normalised_with_channels. Qed.
Print Assumptions C01_normalised_with_channels.
