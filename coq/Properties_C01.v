(* Properties_C01.v — C01: build -> save -> load returns the same content.
   FULL STATEMENT (visible): for every state s reachable by the API with Inv s, complete frames and
   content within capacity:  exists s', load (save s) = Ok s' /\ obs s' = canon (obs s).
   Decided today by the C01 check on generated histories (direct oracle on the real library + byte
   and dump correspondence with the model).  Proved in Coq, for all inputs: the layout of the written
   file (C03), the round trip of the whole data section — which carries every x, y, z, RESIDUAL and
   analog sample — and of every scalar; the remaining stage (parameter records, section chain, header
   fields) is validated, not yet proved. *)
From EZ Require Import Base Bytes Types Api Enc Dec Float32 Run Proofs_Bytes Proofs_Codec Proofs_Section.
Local Open Scope N_scope.

(* the frames of a saved object come back bit for bit: the data section written by save is read by the
   frame reader as the same frames (names bound by position) *)
Theorem C01_partial_frames : forall fs np ns nc pn an st r,
  Forall (uniform np ns nc) fs -> st_fail st = false -> st_rest st = data_section fs ++ r ->
  rd_many (length fs) (frame_reader np ns nc pn an) st =
    Ok (map (rename_frame pn an) fs, adv st (length fs * (16 * np + 4 * nc * ns)) r).
Proof. exact data_section_roundtrip. Qed.
Print Assumptions C01_partial_frames.

(* and that data section sits exactly after the blocks the header's data-start word announces *)
Theorem C01_partial_data_position : forall s bytes, wf_header (hdr s) -> save s = Ok bytes ->
  exists sec blocks, section_bytes (pro s) (groups s) = Ok (sec, blocks) /\
    bytes = header_bytes (hdr s) (blocks + 1) ++ sec ++ data_section (frames s) /\
    length (header_bytes (hdr s) (blocks + 1)) = 512%nat /\ nlen sec = 512 * (blocks - 1) /\
    nlen bytes = 512 * blocks + nlen (data_section (frames s)).
Proof. exact save_layout. Qed.
Print Assumptions C01_partial_data_position.

(* witness of the repaired defect (residual lost on every copy): the model of the repaired code keeps it
   through frame(), save and load *)
Example C01_residual_kept :
  let rate := mkParam nm_RATE [] false TFloat [1] [] [1120403456] [] in
  let f := mkFrame [mkPoint [97] 1065353216 1073741824 1077936128 1082130432] [] in
  exists s1 s2 s3 bytes s4, step_x init (OPoint [97]) = ROk tt s1 /\ step_x s1 (OParam nm_POINT rate) = ROk tt s2 /\
    step_x s2 (OFrame f None) = ROk tt s3 /\ save_x s3 = Ok bytes /\ load_x bytes = Ok s4 /\
    map (fun fr => map pt_r (fr_pts fr)) (frames s4) = [[1082130432]].
Proof.
  do 5 eexists.
  split; [vm_compute; reflexivity|]. split; [vm_compute; reflexivity|]. split; [vm_compute; reflexivity|].
  split; [vm_compute; reflexivity|]. split; [vm_compute; reflexivity|]. vm_compute. reflexivity.
Qed.
Print Assumptions C01_residual_kept.
