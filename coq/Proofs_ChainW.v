(* Proofs_ChainW.v — codec round trip, chain stage, writer side (C01/C03/C04): Parameters::write emits the
   prologue, then exactly the records of the tree in order (group record, then its parameters; placeholder groups
   skipped), then the padding whose first byte is the end marker; the two back-patches (block count, POINT:DATA_START)
   change one byte each, and the patched DATA_START record is the record of the parameter holding the patched value. *)
From Coq Require Import Lia ZifyNat ZifyN ZifyBool.
From EZ Require Import Base Bytes Types Api Enc Dec Proofs_Bytes Proofs_Lookup Proofs_Param Proofs_Codec Proofs_Section Proofs_Record Proofs_Chain.
Local Open Scope N_scope.

Definition is_placeholder (g : group) : bool := (match g_name g with [] => true | _ => false end) && (nlen (g_params g) =? 0).

(* the records as the writer produces them: bytes and, for a DATA_START parameter, the offset of its value inside the record *)
Definition prec (gid : Z) (p : param) : list N * option N :=
  match param_record p gid with Ok x => x | _ => ([], None) end.
Fixpoint recs_of (gs : list group) (gid : Z) : list (list N * option N) :=
  match gs with
  | [] => []
  | g :: t => if is_placeholder g then recs_of t (gid + 1)%Z
              else (group_record g gid, None) :: map (prec gid) (g_params g) ++ recs_of t (gid + 1)%Z
  end.
Definition all_records_defined (gs : list group) : Prop :=
  forall g, In g gs -> forall p gid, In p (g_params g) -> exists x, param_record p gid = Ok x.

Fixpoint ds_fold (base : N) (acc_len : N) (recs : list (list N * option N)) (dsp : option N) : option N :=
  match recs with
  | [] => dsp
  | (b, ds) :: t => ds_fold base (acc_len + nlen b) t (match ds with Some o => Some (base + acc_len + o) | None => dsp end)
  end.
Definition cat (recs : list (list N * option N)) : list N := concat (map fst recs).

Lemma ds_fold_app : forall base a r1 r2 dsp,
  ds_fold base a (r1 ++ r2) dsp = ds_fold base (a + nlen (cat r1)) r2 (ds_fold base a r1 dsp).
Proof.
  intros base a r1. revert a. induction r1 as [|[b ds] t IH]; intros a r2 dsp; cbn [app ds_fold].
  - unfold cat. cbn. rewrite N.add_0_r. reflexivity.
  - rewrite IH. unfold cat. cbn [map concat fst]. f_equal. unfold nlen. rewrite app_length. lia.
Qed.
Lemma cat_app : forall r1 r2, cat (r1 ++ r2) = cat r1 ++ cat r2.
Proof. intros r1 r2. unfold cat. rewrite map_app, concat_app. reflexivity. Qed.

Lemma params_records_spec : forall ps gid base acc dsp,
  (forall p, In p ps -> exists x, param_record p gid = Ok x) ->
  params_records ps gid base acc dsp =
    Ok (acc ++ cat (map (prec gid) ps), ds_fold base (nlen acc) (map (prec gid) ps) dsp).
Proof.
  induction ps as [|p t IH]; intros gid base acc dsp H; cbn [params_records map ds_fold].
  - unfold cat. cbn. rewrite app_nil_r. reflexivity.
  - destruct (H p (or_introl eq_refl)) as [[bs ds] E]. rewrite E. cbn [obind].
    rewrite IH by (intros q Hq; apply H; right; exact Hq).
    assert (Ep : prec gid p = (bs, ds)) by (unfold prec; rewrite E; reflexivity). rewrite Ep.
    unfold cat. cbn [map concat fst]. rewrite <- app_assoc. do 2 f_equal.
    unfold nlen. rewrite app_length. f_equal. lia.
Qed.

Lemma groups_records_spec : forall gs gid base acc dsp, all_records_defined gs ->
  groups_records gs gid base acc dsp =
    Ok (acc ++ cat (recs_of gs gid), ds_fold base (nlen acc) (recs_of gs gid) dsp).
Proof.
  induction gs as [|g t IH]; intros gid base acc dsp H; cbn [groups_records recs_of].
  - unfold cat. cbn. rewrite app_nil_r. reflexivity.
  - fold (is_placeholder g). destruct (is_placeholder g).
    + apply IH. intros g' Hg'. apply H. right. exact Hg'.
    + rewrite params_records_spec by (intros p Hp; apply (H g (or_introl eq_refl) p gid Hp)).
      cbn [obind]. rewrite IH by (intros g' Hg'; apply H; right; exact Hg').
      change ((group_record g gid, None) :: map (prec gid) (g_params g) ++ recs_of t (gid + 1)%Z)
        with ([(group_record g gid, @None N)] ++ map (prec gid) (g_params g) ++ recs_of t (gid + 1)%Z).
      rewrite !cat_app, !ds_fold_app.
      assert (C1 : cat [(group_record g gid, @None N)] = group_record g gid) by (unfold cat; cbn [map concat fst]; apply app_nil_r).
      rewrite C1. cbn [ds_fold]. rewrite <- !app_assoc. f_equal. f_equal.
      unfold nlen. rewrite !app_length. f_equal; [lia|]. f_equal. lia.
Qed.

(* ---------- the one-byte patch ---------- *)
Lemma patch_byte_at : forall (X : list N) c Y v, patch_byte (X ++ c :: Y) (length X) v = X ++ v :: Y.
Proof. induction X as [|x X IH]; intros c Y v; cbn [app length patch_byte]; [reflexivity|]. rewrite IH. reflexivity. Qed.

Definition entry_ok (v : N) (e : list N * option N) (it : item) : Prop :=
  (snd e = None /\ fst e = item_bytes it) \/
  (exists X Y, snd e = Some (nlen X) /\ fst e = X ++ [0; 0] ++ Y /\ item_bytes it = X ++ [v; 0] ++ Y).
Definition has_ds (e : list N * option N) : bool := match snd e with Some _ => true | None => false end.
Definition nds (recs : list (list N * option N)) : nat := length (filter has_ds recs).

Lemma no_ds_entries : forall v recs its, Forall2 (entry_ok v) recs its -> nds recs = 0%nat ->
  cat recs = concat (map item_bytes its) /\ forall base a d, ds_fold base a recs d = d.
Proof.
  intros v recs its F. induction F as [|[b ds] it recs its He _ IH]; intros Hn.
  - split; [reflexivity|intros; reflexivity].
  - unfold nds in Hn. cbn [filter] in Hn. unfold has_ds at 1 in Hn. cbn [snd] in Hn.
    destruct ds as [o|]; [cbn in Hn; lia|]. destruct (IH Hn) as [E1 E2].
    destruct He as [[_ Eb]|[X [Y [Es _]]]]; [|cbn in Es; discriminate]. cbn [fst] in Eb.
    split.
    + unfold cat. cbn [map concat fst]. rewrite Eb. f_equal. exact E1.
    + intros base a d. cbn [ds_fold]. apply E2.
Qed.

Lemma one_ds_entry : forall v recs its, Forall2 (entry_ok v) recs its -> nds recs = 1%nat ->
  forall base (P Z : list N), exists k,
    ds_fold base (nlen P) recs None = Some (base + nlen P + k) /\
    patch_byte (P ++ cat recs ++ Z) (N.to_nat (nlen P + k)) v = P ++ concat (map item_bytes its) ++ Z.
Proof.
  intros v recs its F. induction F as [|[b ds] it recs its He F IH]; intros Hn base P Z.
  - cbn in Hn. lia.
  - unfold nds in Hn. cbn [filter] in Hn. unfold has_ds at 1 in Hn. cbn [snd] in Hn.
    destruct He as [[Es Eb]|[X [Y [Es [Eb Ei]]]]]; cbn [fst snd] in Es, Eb; subst ds.
    + (* an ordinary record: move it into the prefix *)
      destruct (IH Hn base (P ++ b) Z) as [k [D Pa]]. exists (nlen b + k).
      cbn [ds_fold]. split.
      * assert (E : nlen P + nlen b = nlen (P ++ b)) by (unfold nlen; rewrite app_length; lia). rewrite E, D. f_equal.
        unfold nlen. rewrite app_length. lia.
      * unfold cat. cbn [map concat fst]. fold (cat recs). rewrite Eb in *.
        replace (N.to_nat (nlen P + (nlen (item_bytes it) + k))) with (N.to_nat (nlen (P ++ item_bytes it) + k))
          by (unfold nlen; rewrite app_length; lia).
        rewrite <- !app_assoc in Pa. rewrite <- !app_assoc. exact Pa.
    + (* the DATA_START record *)
      cbn in Hn. assert (Hn0 : nds recs = 0%nat) by (unfold nds; lia).
      destruct (no_ds_entries v recs its F Hn0) as [E1 E2]. exists (nlen X).
      cbn [ds_fold]. rewrite E2. split; [reflexivity|].
      unfold cat. cbn [map concat fst]. fold (cat recs). rewrite Eb, Ei, E1.
      replace (N.to_nat (nlen P + nlen X)) with (length (P ++ X)) by (unfold nlen; rewrite app_length; lia).
      cbn [app]. rewrite <- !app_assoc. cbn [app].
      replace (P ++ X ++ 0 :: 0 :: Y ++ concat (map item_bytes its) ++ Z) with ((P ++ X) ++ 0 :: (0 :: Y ++ concat (map item_bytes its) ++ Z))
        by (rewrite <- app_assoc; reflexivity).
      rewrite patch_byte_at. rewrite <- app_assoc. reflexivity.
Qed.

(* ---------- the tree as a list of items; the DATA_START parameter carries the patched value ---------- *)
Definition is_ds (p : param) : bool := bstr_eqb (p_name p) nm_DATA_START.
Definition with_val (p : param) (v : N) : param :=
  mkParam (p_name p) (p_desc p) (p_lock p) (p_type p) (p_dims p) [Z.of_N v] (p_floats p) (p_strs p).
Definition item_of_param (v : N) (gid : Z) (p : param) : item := IP gid (if is_ds p then with_val p v else p).
Fixpoint items_v (gs : list group) (gid : Z) (v : N) : list item :=
  match gs with
  | [] => []
  | g :: t => if is_placeholder g then items_v t (gid + 1)%Z v
              else IG gid g :: map (item_of_param v gid) (g_params g) ++ items_v t (gid + 1)%Z v
  end.

Definition ok_param (p : param) : Prop :=
  if is_ds p then p_type p = TInt /\ p_dims p = [1] else wf_param p.

Lemma prec_entry : forall v gid p, ok_param p -> v < 256 -> entry_ok v (prec gid p) (item_of_param v gid p).
Proof.
  intros v gid p Hok Hv. unfold ok_param, item_of_param in *. destruct (is_ds p) eqn:D.
  - destruct Hok as [Ty Dm]. right.
    assert (Db : data_bytes p = Ok ([0; 0], true)).
    { unfold data_bytes. rewrite Dm, Ty. unfold is_ds in D. rewrite D. reflexivity. }
    unfold prec, param_record. rewrite Db. cbn [obind fst snd].
    set (bd := [type_byte (p_type p)] ++ dims_bytes (p_dims p)).
    set (tl := [0; 0] ++ [low8 (zlen (p_desc p))] ++ p_desc p).
    exists ([name_len_byte (p_name p) (p_lock p); low8 gid] ++ upper (p_name p) ++ le_bytes 2 (2 + zlen bd + zlen tl)%Z ++ bd),
           ([low8 (zlen (p_desc p))] ++ p_desc p).
    split; [|split].
    + f_equal. unfold nlen, bd. rewrite !app_length, le_bytes_length. cbn [length]. blia.
    + unfold tl. rewrite <- !app_assoc. reflexivity.
    + unfold bd, tl. cbn [item_bytes]. unfold param_bytes, param_body, param_tail, values_bytes, with_val. cbn [p_name p_lock p_type p_dims p_desc p_ints].
      rewrite Ty. cbn [map concat]. rewrite app_nil_r.
      assert (Lv : le_bytes 2 (Z.of_N v) = [v; 0]).
      { cbn [le_bytes]. f_equal; [|f_equal].
        - rewrite Z.mod_small by lia. apply N2Z.id.
        - rewrite Z.div_small by lia. reflexivity. }
      rewrite Lv. rewrite <- !app_assoc.
      assert (Lz : zlen (([v; 0] ++ [low8 (zlen (p_desc p))] ++ p_desc p)) = zlen ([0; 0] ++ [low8 (zlen (p_desc p))] ++ p_desc p)) by reflexivity.
      unfold zlen in *. rewrite !app_length in *. cbn [length] in *. reflexivity.
  - left. unfold is_ds in D. unfold prec. rewrite (param_record_wf p gid Hok D). split; reflexivity.
Qed.

Definition ok_tree (gs : list group) : Prop :=
  forall g, In g gs -> is_placeholder g = false -> wf_group_hdr g /\ forall p, In p (g_params g) -> ok_param p.

Lemma placeholder_no_params : forall g, is_placeholder g = true -> g_params g = [].
Proof.
  intros g H. unfold is_placeholder in H. apply andb_prop in H. destruct H as [_ H]. apply N.eqb_eq in H. apply nlen_0_nil. exact H.
Qed.

Lemma recs_items : forall v gs gid, ok_tree gs -> v < 256 -> Forall2 (entry_ok v) (recs_of gs gid) (items_v gs gid v).
Proof.
  intros v gs. induction gs as [|g t IH]; intros gid H Hv; cbn [recs_of items_v]; [constructor|].
  assert (Ht : ok_tree t) by (intros g' Hg'; apply H; right; exact Hg').
  destruct (is_placeholder g) eqn:Pl; [apply IH; assumption|].
  destruct (H g (or_introl eq_refl) Pl) as [_ Hp].
  constructor; [left; split; reflexivity|].
  apply Forall2_app; [|apply IH; assumption].
  clear -Hp Hv. induction (g_params g) as [|p ps IHp]; cbn [map]; [constructor|].
  constructor; [apply prec_entry; [apply Hp; left; reflexivity|exact Hv]|]. apply IHp. intros q Hq. apply Hp. right. exact Hq.
Qed.

Lemma ok_tree_defined : forall gs, ok_tree gs -> all_records_defined gs.
Proof.
  intros gs H g Hg p gid Hp. destruct (is_placeholder g) eqn:Pl; [rewrite (placeholder_no_params g Pl) in Hp; destruct Hp|].
  destruct (H g Hg Pl) as [_ Hok]. specialize (Hok p Hp). unfold ok_param in Hok. destruct (is_ds p) eqn:D.
  - destruct Hok as [Ty Dm]. unfold param_record, data_bytes. rewrite Dm, Ty. unfold is_ds in D. rewrite D. cbn. eauto.
  - unfold is_ds in D. rewrite (param_record_wf p gid Hok D). eauto.
Qed.

(* THE PARAMETER SECTION, as written: prologue with the block count, the records of the tree with the DATA_START
   parameter holding the 1-based number of the first data block, zero padding (1..512 bytes: the end marker first) *)
Theorem section_canonical : forall pr gs sec blocks,
  ok_tree gs -> (nds (recs_of gs 1) <= 1)%nat -> section_bytes pr gs = Ok (sec, blocks) -> blocks + 1 < 256 ->
  exists pad, 1 <= pad <= 512 /\
    sec = [low8 (Z.of_N (ps_start pr)); 80; low8 (Z.of_N (blocks - 1)); 84]
          ++ concat (map item_bytes (items_v gs 1 (blocks + 1))) ++ repeat 0 (N.to_nat pad).
Proof.
  intros pr gs sec blocks Hok Hn H Hb. unfold section_bytes in H.
  rewrite (groups_records_spec gs 1%Z 512 _ None (ok_tree_defined gs Hok)) in H. cbn [obind] in H.
  assert (H2 : finish_section ([low8 (Z.of_N (ps_start pr)); 80; 0; 84] ++ cat (recs_of gs 1))
                              (ds_fold 512 (nlen [low8 (Z.of_N (ps_start pr)); 80; 0; 84]) (recs_of gs 1) None) = (sec, blocks)) by congruence.
  clear H. unfold finish_section in H2.
  pose proof (f_equal fst H2) as Hs. pose proof (f_equal snd H2) as Hbk. cbn [fst snd] in Hs, Hbk. clear H2.
  set (s0 := low8 (Z.of_N (ps_start pr))) in *.
  set (R := recs_of gs 1) in *.
  set (p := 512 + nlen ([s0; 80; 0; 84] ++ cat R)) in *.
  set (pad := 512 - p mod 512) in *.
  exists pad. split; [unfold pad; pose proof (N.mod_lt p 512); lia|].
  assert (Ev : low8 (Z.of_N ((p + pad) / 512 + 1)) = blocks + 1).
  { rewrite Hbk. rewrite low8_small by lia. apply N2Z.id. }
  rewrite Ev in Hs. rewrite Hbk in Hs.
  pose proof (recs_items (blocks + 1) gs 1%Z Hok Hb) as F. fold R in F.
  assert (P2 : patch_byte (([s0; 80; 0; 84] ++ cat R) ++ repeat 0 (N.to_nat pad)) 2 (low8 (Z.of_N (blocks - 1)))
               = [s0; 80; low8 (Z.of_N (blocks - 1)); 84] ++ cat R ++ repeat 0 (N.to_nat pad)).
  { rewrite <- app_assoc. reflexivity. }
  rewrite P2 in Hs.
  assert (Hc : nds R = 0%nat \/ nds R = 1%nat) by lia. destruct Hc as [N0|N1].
  - destruct (no_ds_entries _ R _ F N0) as [E1 E2]. rewrite E2 in Hs. rewrite <- Hs, E1. reflexivity.
  - destruct (one_ds_entry _ R _ F N1 512 [s0; 80; low8 (Z.of_N (blocks - 1)); 84] (repeat 0 (N.to_nat pad))) as [k [D Pa]].
    change (nlen [s0; 80; low8 (Z.of_N (blocks - 1)); 84]) with (nlen [s0; 80; 0; 84]) in D. rewrite D in Hs.
    replace (N.to_nat (512 + nlen [s0; 80; 0; 84] + k - 512)) with (N.to_nat (nlen [s0; 80; low8 (Z.of_N (blocks - 1)); 84] + k)) in Hs
      by (unfold nlen; cbn [length]; lia).
    rewrite Pa in Hs. rewrite <- Hs. reflexivity.
Qed.

(* ---------- what the walker rebuilds from those records: the tree itself, names upper-cased ---------- *)
Definition canon_p (v : N) (p : param) : param := upper_name (if is_ds p then with_val p v else p).
Definition canon_g (v : N) (g : group) : group :=
  mkGroup (upper (g_name g)) (g_desc g) (g_lock g) (map (canon_p v) (g_params g)).

Lemma find_none_not_in : forall (l : list param) n,
  (forall q, In q l -> p_name q <> n) -> find_idx (fun y => bstr_eqb (p_name y) n) l 0 = None.
Proof.
  intros l n H. generalize 0 as k. induction l as [|a l IH]; intros k; cbn [find_idx]; [reflexivity|].
  destruct (bstr_eqb (p_name a) n) eqn:E; [apply bstr_eqb_eq in E; exfalso; exact (H a (or_introl eq_refl) E)|].
  apply IH. intros q Hq. apply H. right. exact Hq.
Qed.

Lemma nth_error_last : forall A (l : list A) x, nth_error (l ++ [x]) (length l) = Some x.
Proof. intros A l x. rewrite nth_error_app2 by lia. rewrite Nat.sub_diag. reflexivity. Qed.

Lemma canon_p_type : forall v p, p_type (canon_p v p) = p_type p.
Proof. intros v p. unfold canon_p, upper_name, with_val. destruct (is_ds p); reflexivity. Qed.
Lemma canon_p_name : forall v p, p_name (canon_p v p) = upper (p_name p).
Proof. intros v p. unfold canon_p, upper_name, with_val. destruct (is_ds p); reflexivity. Qed.

(* the parameters of one group, appended one by one to the group at slot gid *)
Lemma apply_params : forall v gid ps done T G rest,
  length T = slot gid -> (1 <= gid)%Z ->
  g_params G = map (canon_p v) done ->
  NoDup (map (fun p => upper (p_name p)) (done ++ ps)) ->
  (forall p, In p ps -> p_type p <> TNone) ->
  apply_items (map (item_of_param v gid) ps ++ rest) (T ++ [G]) =
  apply_items rest (T ++ [g_set_params G (map (canon_p v) (done ++ ps))]).
Proof.
  intros v gid ps. induction ps as [|p ps IH]; intros done T G rest HT Hg HG ND Ty.
  - cbn [map app]. rewrite app_nil_r. rewrite <- HG. destruct G; reflexivity.
  - cbn [map app apply_items]. unfold item_of_param at 1. cbn [apply_item].
    assert (Gr : grow_groups (T ++ [G]) (Z.to_N gid) = T ++ [G]).
    { unfold grow_groups. replace (Z.to_N gid - nlen (T ++ [G])) with 0.
      - cbn. apply app_nil_r.
      - unfold nlen, slot in *. rewrite app_length. cbn [length]. lia. }
    rewrite Gr. rewrite <- HT. rewrite nth_error_last.
    fold (canon_p v p). assert (Tp : p_type (canon_p v p) <> TNone) by (rewrite canon_p_type; apply Ty; left; reflexivity).
    rewrite (group_set_param_is_upsert G (canon_p v p) Tp). cbn [obind].
    assert (Up : upsert param p_name (g_params G) (canon_p v p) = g_params G ++ [canon_p v p]).
    { unfold upsert. rewrite find_none_not_in; [reflexivity|].
      intros q Hq. rewrite HG in Hq. apply in_map_iff in Hq. destruct Hq as [q0 [<- Hq0]].
      rewrite !canon_p_name. intros E.
      rewrite map_app in ND. cbn [map] in ND. apply NoDup_remove_2 in ND. apply ND. apply in_or_app. left.
      apply in_map_iff. exists q0. auto. }
    rewrite Up.
    replace (replace_nth (length T) (g_set_params G (g_params G ++ [canon_p v p])) (T ++ [G])) with (T ++ [g_set_params G (g_params G ++ [canon_p v p])]).
    2:{ clear. induction T as [|a T IHT]; cbn [app length replace_nth]; [reflexivity|]. rewrite <- IHT. reflexivity. }
    rewrite (IH (done ++ [p]) T (g_set_params G (g_params G ++ [canon_p v p])) rest HT Hg).
    + rewrite <- app_assoc. cbn [app]. destruct G; reflexivity.
    + cbn [g_params g_set_params]. rewrite HG, map_app. reflexivity.
    + rewrite <- app_assoc. exact ND.
    + intros q Hq. apply Ty. right. exact Hq.
Qed.

Lemma replace_last_any : forall A (T : list A) x y, replace_nth (length T) y (T ++ [x]) = T ++ [y].
Proof. intros A T x y. induction T as [|a T IH]; cbn [app length replace_nth]; [reflexivity|]. rewrite IH. reflexivity. Qed.

Definition group_ok (g : group) : Prop :=
  NoDup (map (fun p => upper (p_name p)) (g_params g)) /\ (forall p, In p (g_params g) -> p_type p <> TNone).

Lemma apply_group : forall v gid g T rest, length T = slot gid -> (1 <= gid)%Z -> group_ok g ->
  apply_items (IG gid g :: map (item_of_param v gid) (g_params g) ++ rest) T = apply_items rest (T ++ [canon_g v g]).
Proof.
  intros v gid g T rest HT Hg [ND Ty]. cbn [apply_items apply_item].
  assert (Gr : grow_groups T (Z.to_N gid) = T ++ [new_group [] []]).
  { unfold grow_groups. replace (Z.to_N gid - nlen T) with 1 by (unfold nlen, slot in *; lia). reflexivity. }
  rewrite Gr. rewrite <- HT. rewrite nth_error_last. cbn [obind]. rewrite replace_last_any.
  assert (Ed : desc_after g (new_group [] []) = g_desc g) by (unfold desc_after; cbn; destruct (g_desc g); reflexivity).
  rewrite Ed. cbn [new_group g_params].
  rewrite (apply_params v gid (g_params g) [] T (mkGroup (upper (g_name g)) (g_desc g) (g_lock g) []) rest HT Hg (eq_refl : g_params (mkGroup (upper (g_name g)) (g_desc g) (g_lock g) []) = map (canon_p v) []) ND Ty).
  reflexivity.
Qed.

(* a tree without placeholder groups: the walker rebuilds it group by group *)
Theorem apply_tree : forall v gs T,
  (forall g, In g gs -> is_placeholder g = false /\ group_ok g) ->
  apply_items (items_v gs (Z.of_nat (length T) + 1) v) T = Ok (T ++ map (canon_g v) gs).
Proof.
  intros v gs. induction gs as [|g t IH]; intros T H; cbn [items_v map].
  - rewrite app_nil_r. reflexivity.
  - destruct (H g (or_introl eq_refl)) as [Pl Gk]. rewrite Pl.
    rewrite apply_group; [|unfold slot; lia|lia|exact Gk].
    replace (Z.of_nat (length T) + 1 + 1)%Z with (Z.of_nat (length (T ++ [canon_g v g])) + 1)%Z by (rewrite app_length; cbn [length]; lia).
    rewrite IH by (intros g' Hg'; apply H; right; exact Hg'). rewrite <- app_assoc. reflexivity.
Qed.

Lemma items_len_ge : forall its, (length its <= items_len its)%nat.
Proof.
  induction its as [|it t IH]; unfold items_len in *; cbn [map concat length]; [lia|]. rewrite app_length.
  assert (1 <= length (item_bytes it))%nat.
  { destruct it as [gid g|gid p]; cbn [item_bytes]; [rewrite group_record_length|rewrite param_bytes_length]; lia. }
  lia.
Qed.

Lemma uint1_cons : forall b st r, b < 256 -> st_fail st = false -> st_rest st = b :: r -> rd_uint 1 st = Ok (b, adv st 1 r).
Proof. intros b st r Hb Hf Hr. apply (reads_uint1 b Hb st r Hf Hr). Qed.

(* Parameters::Parameters(file) on the file c3d::write produced: the prologue and the tree come back *)
Theorem read_parameters_written_gen : forall h pr gs sec blocks hb data st,
  ok_tree gs -> (nds (recs_of gs 1) <= 1)%nat ->
  apply_items (items_v gs 1 (blocks + 1)) [] = Ok (map (canon_g (blocks + 1)) gs) ->
  section_bytes pr gs = Ok (sec, blocks) -> blocks + 1 < 256 -> ps_start pr = 1 ->
  Forall wf_item (items_v gs 1 (blocks + 1)) ->
  h_paddr h = 2 -> h_zeros h = 0 -> length hb = 512%nat ->
  st_fail st = false -> st_file st = hb ++ sec ++ data ->
  exists st', read_parameters h st = Ok ((mkPro 1 80 (blocks - 1) 84, map (canon_g (blocks + 1)) gs), st') /\
    st_fail st' = false /\ st_file st' = st_file st.
Proof.
  intros h pr gs sec blocks hb data st Hok Hn Hg Hs Hb Hst Wf Hp Hz Lh Hf Hfile.
  destruct (section_canonical pr gs sec blocks Hok Hn Hs Hb) as [pad [Hpad Esec]].
  assert (Sh : nlen sec = 512 * (blocks - 1)).
  { unfold section_bytes in Hs. destruct (groups_records gs 1 512 _ None) as [[recs dsp]| |]; cbn [obind] in Hs; try discriminate.
    assert (F : finish_section recs dsp = (sec, blocks)) by congruence. apply (finish_section_shape _ _ _ _ F). }
  set (v := blocks + 1) in *. set (its := items_v gs 1 v) in *.
  assert (Lsec : length sec = (4 + items_len its + N.to_nat pad)%nat).
  { rewrite Esec. unfold items_len. rewrite !app_length, repeat_length. cbn [length]. lia. }
  unfold read_parameters. rewrite Hp, Hz.
  change (wrap32s (Z.of_N (wrap64 (512 * sub64 2 1 + 0)))) with 512%Z.
  unfold rbind at 1. unfold rd_seek. unfold seek. rewrite Hf. cbn [Z.ltb]. 
  change (512 <? 0)%Z with false. cbv iota.
  set (st1 := mkStream (st_file st) (Z.to_N 512) (skipn (Z.to_nat 512) (st_file st)) false).
  assert (R1 : st_rest st1 = sec ++ data).
  { unfold st1. cbn [st_rest]. rewrite Hfile. change (Z.to_nat 512) with 512%nat. rewrite <- Lh. apply skipn_app_exact. }
  assert (B1 : low8 (Z.of_N (blocks - 1)) < 256) by (rewrite low8_small by lia; lia).
  assert (S1 : low8 (Z.of_N (ps_start pr)) = 1) by (rewrite Hst; reflexivity).
  rewrite Esec, S1 in R1. cbn [app] in R1.
  unfold rbind at 1. rewrite (uint1_cons 1 st1 _ ltac:(lia) eq_refl R1).
  unfold rbind at 1. rewrite (uint1_cons 80 _ _ ltac:(lia) (adv_fail _ _ _) (adv_rest _ _ _)). rewrite adv_adv.
  unfold rbind at 1. rewrite (uint1_cons _ _ _ B1 (adv_fail _ _ _) (adv_rest _ _ _)). rewrite adv_adv.
  unfold rbind at 1. rewrite (uint1_cons 84 _ _ ltac:(lia) (adv_fail _ _ _) (adv_rest _ _ _)). rewrite adv_adv.
  cbn [Nat.add length]. change ((80 =? 0) && (1 =? 0)) with false. cbv iota. change (negb (80 =? 80)) with false. cbv iota.
  unfold rbind at 1. unfold rd_tell at 1. unfold tell. cbn [adv st_fail st_pos].
  unfold rbind at 1. unfold rd_len at 1. cbn [adv st_file].
  set (st4 := adv st1 4 ((concat (map item_bytes its) ++ repeat 0 (N.to_nat pad)) ++ data)).
  assert (Pz : exists z, repeat 0 (N.to_nat pad) = 0 :: z) by (destruct (N.to_nat pad) eqn:E; [lia|eexists; reflexivity]).
  destruct Pz as [z Ez].
  assert (Pos4 : st_pos st4 = 516) by reflexivity.
  assert (Enx : wrap32s (Z.of_N (st_pos st1 + N.of_nat 4) + Z.of_N 1 - 1) = Z.of_N (st_pos st4)) by (rewrite Pos4; reflexivity).
  rewrite Enx.
  assert (Eb : low8 (Z.of_N (blocks - 1)) = blocks - 1) by (rewrite low8_small by lia; apply N2Z.id). rewrite Eb.
  assert (Lf : (length (st_file st1) >= 512 + length sec)%nat) by (unfold st1; cbn [st_file]; rewrite Hfile, !app_length; lia).
  unfold rbind at 1.
  rewrite (walk_items its _ [] st4 (z ++ data) Wf).
  - rewrite Hg. unfold rret. eexists. split; [reflexivity|]. split; reflexivity.
  - pose proof (items_len_ge its). unfold nlen. rewrite Nat2N.id. lia.
  - reflexivity.
  - rewrite Pos4. lia.
  - rewrite Pos4. unfold nlen in Sh. lia.
  - unfold st4. cbn [adv st_rest]. rewrite Ez. rewrite <- !app_assoc. reflexivity.
Qed.

(* ---------- trees with placeholder groups (sparse group ids of loaded files) ---------- *)
Definition ph : group := new_group [] [].

Lemma repeat_snoc : forall A (x : A) k, repeat x k ++ [x] = repeat x (S k).
Proof. intros A x k. induction k as [|k IH]; cbn; [reflexivity|]. rewrite IH. reflexivity. Qed.

Lemma apply_group_k : forall v gid g T k rest, (length T + k)%nat = slot gid -> (1 <= gid)%Z -> group_ok g ->
  apply_items (IG gid g :: map (item_of_param v gid) (g_params g) ++ rest) T = apply_items rest (T ++ repeat ph k ++ [canon_g v g]).
Proof.
  intros v gid g T k rest HT Hg [ND Ty]. cbn [apply_items apply_item].
  assert (Gr : grow_groups T (Z.to_N gid) = (T ++ repeat ph k) ++ [ph]).
  { unfold grow_groups. replace (Z.to_N gid - nlen T) with (N.of_nat (S k)) by (unfold nlen, slot in *; lia).
    rewrite Nat2N.id. rewrite <- repeat_snoc. rewrite app_assoc. reflexivity. }
  rewrite Gr.
  assert (L : length (T ++ repeat ph k) = slot gid) by (rewrite app_length, repeat_length; exact HT).
  rewrite <- L. rewrite nth_error_last. cbn [obind]. rewrite replace_last_any.
  assert (Ed : desc_after g ph = g_desc g) by (unfold desc_after, ph; cbn; destruct (g_desc g); reflexivity).
  rewrite Ed. unfold ph at 2. cbn [new_group g_params].
  rewrite (apply_params v gid (g_params g) [] (T ++ repeat ph k) (mkGroup (upper (g_name g)) (g_desc g) (g_lock g) []) rest L Hg
             (eq_refl : g_params (mkGroup (upper (g_name g)) (g_desc g) (g_lock g) []) = map (canon_p v) []) ND Ty).
  rewrite <- app_assoc. reflexivity.
Qed.

Lemma canon_ph : forall v, canon_g v ph = ph.
Proof. reflexivity. Qed.

(* the walker on a tree with placeholders: they are re-created when a later group is met *)
Theorem apply_tree_ph : forall v gs T k pre,
  (forall g, In g gs -> (is_placeholder g = true -> g = ph) /\ (is_placeholder g = false -> group_ok g)) ->
  T ++ repeat ph k = map (canon_g v) pre ->
  exists T' k', apply_items (items_v gs (Z.of_nat (length pre) + 1) v) T = Ok T' /\
                T' ++ repeat ph k' = map (canon_g v) (pre ++ gs) /\
                (forall g0, last gs ph = g0 -> gs <> [] -> is_placeholder g0 = false -> k' = 0%nat).
Proof.
  intros v gs. induction gs as [|g t IH]; intros T k pre H Hinv; cbn [items_v].
  - exists T, k. rewrite app_nil_r. split; [reflexivity|]. split; [exact Hinv|]. intros g0 _ Ne. contradiction.
  - destruct (H g (or_introl eq_refl)) as [Hp Hn].
    assert (Ht : forall g', In g' t -> (is_placeholder g' = true -> g' = ph) /\ (is_placeholder g' = false -> group_ok g'))
      by (intros g' Hg'; apply H; right; exact Hg').
    assert (Lp : length (map (canon_g v) pre) = length pre) by apply map_length.
    assert (LT : (length T + k)%nat = length pre) by (rewrite <- Lp, <- Hinv, app_length, repeat_length; reflexivity).
    destruct (is_placeholder g) eqn:Pl.
    + (* nothing is written for it *)
      rewrite (Hp eq_refl) in *.
      destruct (IH T (S k) (pre ++ [ph]) Ht) as [T' [k' [E [I2 L2]]]].
      { rewrite map_app. cbn [map]. rewrite canon_ph, <- Hinv, <- app_assoc, repeat_snoc. reflexivity. }
      exists T', k'. rewrite app_length in E. cbn [length] in E.
      replace (Z.of_nat (length pre) + 1 + 1)%Z with (Z.of_nat (length pre + 1) + 1)%Z by lia.
      split; [exact E|]. split; [rewrite <- app_assoc in I2; exact I2|].
      intros g0 Hl Ne Hg0. destruct t as [|g1 t1].
      * cbn in Hl. subst g0. discriminate.
      * apply (L2 g0); [exact Hl|discriminate|exact Hg0].
    + rewrite (apply_group_k v _ g T k _); [|unfold slot; lia|lia|apply Hn; reflexivity].
      destruct (IH (T ++ repeat ph k ++ [canon_g v g]) 0%nat (pre ++ [g]) Ht) as [T' [k' [E [I2 L2]]]].
      { cbn [repeat]. rewrite app_nil_r, map_app. cbn [map]. rewrite <- Hinv, <- app_assoc. reflexivity. }
      exists T', k'. rewrite app_length in E. cbn [length] in E.
      replace (Z.of_nat (length pre) + 1 + 1)%Z with (Z.of_nat (length pre + 1) + 1)%Z by lia.
      split; [exact E|]. split; [rewrite <- app_assoc in I2; exact I2|].
      intros g0 Hl Ne Hg0. destruct t as [|g1 t1].
      * (* g is the last group: nothing was skipped after it *)
        cbn [items_v apply_items] in E. injection E as <-. cbn [app] in I2. rewrite app_nil_r in I2.
        rewrite map_app in I2. cbn [map] in I2.
        assert (Lq : length ((T ++ repeat ph k ++ [canon_g v g]) ++ repeat ph k') = length (map (canon_g v) pre ++ [canon_g v g])) by (rewrite I2; reflexivity).
        rewrite !app_length, !repeat_length, map_length in Lq. cbn [length] in Lq. lia.
      * apply (L2 g0); [exact Hl|discriminate|exact Hg0].
Qed.

Corollary apply_tree_whole : forall v gs,
  (forall g, In g gs -> (is_placeholder g = true -> g = ph) /\ (is_placeholder g = false -> group_ok g)) ->
  (gs <> [] -> is_placeholder (last gs ph) = false) ->
  apply_items (items_v gs 1 v) [] = Ok (map (canon_g v) gs).
Proof.
  intros v gs H Hl. destruct (apply_tree_ph v gs [] 0%nat [] H eq_refl) as [T' [k' [E [I2 L2]]]].
  cbn [length] in E. change (Z.of_nat 0 + 1)%Z with 1%Z in E. rewrite E. f_equal. cbn [app] in I2.
  destruct gs as [|g t]; [cbn in E; injection E as <-; reflexivity|].
  assert (K0 : k' = 0%nat) by (apply (L2 (last (g :: t) ph) eq_refl); [discriminate|apply Hl; discriminate]).
  subst k'. cbn [repeat] in I2. rewrite app_nil_r in I2. exact I2.
Qed.

(* the tree without placeholders *)
Theorem read_parameters_written : forall h pr gs sec blocks hb data st,
  ok_tree gs -> (nds (recs_of gs 1) <= 1)%nat ->
  (forall g, In g gs -> is_placeholder g = false /\ group_ok g) ->
  section_bytes pr gs = Ok (sec, blocks) -> blocks + 1 < 256 -> ps_start pr = 1 ->
  Forall wf_item (items_v gs 1 (blocks + 1)) ->
  h_paddr h = 2 -> h_zeros h = 0 -> length hb = 512%nat ->
  st_fail st = false -> st_file st = hb ++ sec ++ data ->
  exists st', read_parameters h st = Ok ((mkPro 1 80 (blocks - 1) 84, map (canon_g (blocks + 1)) gs), st') /\
    st_fail st' = false /\ st_file st' = st_file st.
Proof.
  intros h pr gs sec blocks hb data st Hok Hn Hg. apply read_parameters_written_gen; try assumption.
  rewrite <- (app_nil_l (map _ gs)). change 1%Z with (Z.of_nat (length (@nil group)) + 1)%Z. apply (apply_tree (blocks + 1) gs [] Hg).
Qed.

(* ... and with placeholder groups (sparse group ids of a loaded file), as long as the last group is a real one *)
Theorem read_parameters_written_sparse : forall h pr gs sec blocks hb data st,
  ok_tree gs -> (nds (recs_of gs 1) <= 1)%nat ->
  (forall g, In g gs -> (is_placeholder g = true -> g = ph) /\ (is_placeholder g = false -> group_ok g)) ->
  (gs <> [] -> is_placeholder (last gs ph) = false) ->
  section_bytes pr gs = Ok (sec, blocks) -> blocks + 1 < 256 -> ps_start pr = 1 ->
  Forall wf_item (items_v gs 1 (blocks + 1)) ->
  h_paddr h = 2 -> h_zeros h = 0 -> length hb = 512%nat ->
  st_fail st = false -> st_file st = hb ++ sec ++ data ->
  exists st', read_parameters h st = Ok ((mkPro 1 80 (blocks - 1) 84, map (canon_g (blocks + 1)) gs), st') /\
    st_fail st' = false /\ st_file st' = st_file st.
Proof.
  intros h pr gs sec blocks hb data st Hok Hn Hg Hl. apply read_parameters_written_gen; try assumption.
  apply apply_tree_whole; assumption.
Qed.
