(* IO.v — c3d::write against a destination that may fail (C15): what reaches the disk and what the
   call reports.  The environment: whether the destination can be opened, and the size beyond which
   the operating system refuses writes (None = no limit). *)
From EZ Require Import Base Types Enc.
Local Open Scope N_scope.

Inductive io_result := Normal (disk : list N) | IoFailure (disk : list N).

(* the stream accepts bytes up to the limit; the first refused write sets the sticky bad bit and every
   later write is a no-op; write() looks at the stream once, after close() *)
Definition save_io (bytes : list N) (open_ok : bool) (limit : option N) : io_result :=
  if negb open_ok then IoFailure []
  else match limit with
       | None => Normal bytes
       | Some k => if nlen bytes <=? k then Normal bytes else IoFailure (firstn (N.to_nat k) bytes)
       end.

Definition write_io (s : state) (open_ok : bool) (limit : option N) : outcome io_result :=
  obind (save s) (fun bytes => Ok (save_io bytes open_ok limit)).
