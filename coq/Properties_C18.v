(* Properties_C18.v — C18: independent objects can be used from different threads.   (partial)
   Proved: whatever the schedule, each thread obtains the outputs and the final object of its solo run,
   for any step function that touches only its own thread's state — in particular for the API model
   step_x.  NOT exhibitable by a Gallina model: data races, the C++ memory model, libstdc++/glibc
   internals.  The premise (ezc3d has no shared mutable state) is checked on the binary by the C18
   check: nm on the freshly built objects, N threads running generated histories under ThreadSanitizer
   with perturbed schedules, and every thread's transcript compared with the sequential model. *)
From EZ Require Import Base Types Api Float32 Run Conc.
Local Open Scope N_scope.

Theorem C18_any_schedule_same_results : forall (S O Out : Type) (stp : S -> O -> S * Out) sched s1 p1 s2 p2,
  interleave S O Out stp sched s1 p1 s2 p2 = (run S O Out stp s1 p1, run S O Out stp s2 p2).
Proof. exact interleave_irrelevant. Qed.
Print Assumptions C18_any_schedule_same_results.

(* instance: two threads each driving its own c3d object through the API model *)
Definition api_step (s : state) (o : op) : state * res state unit :=
  match step_x s o with
  | ROk u s' => (s', ROk u s')
  | RThrow e s' => (s', RThrow e s')
  | RUB t => (s, RUB t)
  end.
Theorem C18_api_instance : forall sched s1 p1 s2 p2,
  interleave _ _ _ api_step sched s1 p1 s2 p2 = (run _ _ _ api_step s1 p1, run _ _ _ api_step s2 p2).
Proof. exact (interleave_irrelevant _ _ _ api_step). Qed.
Print Assumptions C18_api_instance.

Example C18_nonvacuous :
  fst (fst (interleave _ _ _ api_step [true; false; false; true] init [OPoint [97]; OPoint [98]] init [OAnalog [99]])) <>
  fst (snd (interleave _ _ _ api_step [true; false; false; true] init [OPoint [97]; OPoint [98]] init [OAnalog [99]])).
Proof. vm_compute. discriminate. Qed.
Print Assumptions C18_nonvacuous.
