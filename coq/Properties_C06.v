(* Properties_C06.v — C06: adding a frame appends, replaces or extends exactly as documented.
   store_spec is the documented store on plain lists; put is the code's idiom
   (push_back / resize-then-assign with the SIZE_MAX sentinel). *)
From EZ Require Import Base Types Api Proofs_Store Proofs_Guards Proofs_Updaters Proofs_AnalogCol Spec_Typed Proofs_InvDeclare Proofs_InvRate Float32 Run.
Local Open Scope N_scope.

(* the code's store IS the documented one for every index a vector can hold *)
Theorem C06_store_is_documented : forall A (d : A) l x idx,
  (forall i, idx = Some i -> i <= max_index) -> put d l x idx = Ok (store_spec d l x idx).
Proof. exact put_spec. Qed.
Print Assumptions C06_store_is_documented.

Theorem C06_sentinel_appends : forall A (d : A) l x, nlen l < size_max -> put d l x (Some size_max) = Ok (l ++ [x]).
Proof. exact put_sentinel. Qed.
Print Assumptions C06_sentinel_appends.

Theorem C06_beyond_capacity_refused : forall A (d : A) l x i, nlen l <= i -> max_index < i -> i <> size_max ->
  put d l x (Some i) = Throw LengthError.
Proof. exact put_too_far. Qed.
Print Assumptions C06_beyond_capacity_refused.

(* size afterwards: +1 (append), unchanged (replace), index+1 (extend) *)
Theorem C06_count : forall A (d : A) l x idx,
  nlen (store_spec d l x idx) =
    match idx with None => nlen l + 1 | Some i => if i <? nlen l then nlen l else i + 1 end.
Proof. exact store_length. Qed.
Print Assumptions C06_count.

(* the target holds exactly the given frame *)
Theorem C06_target : forall A (d : A) l x idx,
  nth_error (store_spec d l x idx) (match idx with None => length l | Some i => N.to_nat i end) = Some x.
Proof. exact store_target. Qed.
Print Assumptions C06_target.

(* every previously stored frame other than the target is unchanged (the model carries bit patterns) *)
Theorem C06_others_untouched : forall A (d : A) l x idx j y,
  nth_error l j = Some y -> (match idx with None => True | Some i => N.to_nat i <> j end) ->
  nth_error (store_spec d l x idx) j = Some y.
Proof. exact store_others. Qed.
Print Assumptions C06_others_untouched.

(* extending leaves the frames in between empty *)
Theorem C06_gap_empty : forall A (d : A) l x i j,
  nlen l <= i -> (length l <= j < N.to_nat i)%nat -> nth_error (store_spec d l x (Some i)) j = Some d.
Proof. exact store_gap. Qed.
Print Assumptions C06_gap_empty.

(* at the level of the object: an accepted frame() changes the frame sequence by store_spec and nothing else *)
Theorem C06_frame_call : forall f_key f_tosize f_div f_is_zero f idx s s',
  (forall i, idx = Some i -> i <= max_index) ->
  api_frame f_key f_tosize f_div f_is_zero f idx s = ROk tt s' ->
  frames s' = store_spec empty_frame (frames s) f idx.
Proof. exact api_frame_store. Qed.
Print Assumptions C06_frame_call.

(* adding a point column: same number of frames, each gains exactly the supplied points, nothing else changes *)
Theorem C06_point_column : forall f_key f_tosize f_div news s s',
  api_point_col f_key f_tosize f_div news s = ROk tt s' ->
  exists n0, nth_error news 0 = Some n0 /\ length news = length (frames s) /\
  frames s' = zipw (add_pts 0 (length (fr_pts n0))) (frames s) news.
Proof. exact api_point_col_spec. Qed.
Print Assumptions C06_point_column.

(* the channel column: when analog(frames) is accepted, every frame keeps its points and each of its first
   header-sub-frames-per-frame sub-frames gains exactly the supplied channels, in order; nothing else changes.
   For supplied and stored frames of uniform shape (uniform_chancol). *)
Theorem C06_channel_column : forall f_key f_tosize f_div news s s' labels,
  r_strs (groups s) nm_ANALOG nm_LABELS = Ok labels ->
  uniform_chancol (N.to_nat (h_byframe (hdr s))) (width0 news) (frames s) news ->
  api_analog_col f_key f_tosize f_div news s = ROk tt s' ->
  frames s' = zipw (add_chs_frame (N.to_nat (h_byframe (hdr s))) 0 (N.to_nat (width0 news))) (frames s) news.
Proof. exact api_analog_col_store. Qed.
Print Assumptions C06_channel_column.

(* non-vacuity: the executable instance accepts a frame on a prepared object and stores it *)
Example C06_nonvacuous :
  let p := mkParam nm_RATE [] false TFloat [1] [] [1120403456] [] in
  let f := mkFrame [] [] in
  exists s1 s2, step_x init (OParam nm_POINT p) = ROk tt s1 /\
                step_x s1 (OFrame f (Some 2)) = ROk tt s2 /\ frames s2 = [empty_frame; empty_frame; f].
Proof.
  do 2 eexists.
  split; [vm_compute; reflexivity|].
  split; [vm_compute; reflexivity|].
  vm_compute; reflexivity.
Qed.
Print Assumptions C06_nonvacuous.

(* A WHOLE RECORDING from the constructor: after point(p) for every p of ps, analog(c) for every c of cs, the two rates, and
   frame(f) for every f of fs (frames that carry the trimmed declared names in order, q sub-frames each), the data set holds
   EXACTLY the frames given, in the order given — nothing lost, nothing doubled, nothing reordered (the statement about header and
   parameters is C05_whole_session_from_the_constructor) *)
Theorem C06_recording_stores_exactly_the_frames_given : forall f_key f_tosize f_div f_is_zero,
  (forall x e, f_key x <> Throw e) -> (forall x e, f_tosize x <> Throw e) ->
  forall ps cs pr ar prate arate tp ta q fs s',
  cs <> [] -> nlen ps < 2147483648 -> nlen cs < 2147483648 ->
  p_name pr = nm_RATE -> kind_ok KFlt1 pr = true -> values_as_float pr = Ok (prate :: tp) -> f32_is_zero prate = false ->
  p_name ar = nm_RATE -> kind_ok KFlt1 ar = true -> values_as_float ar = Ok (arate :: ta) ->
  f_tosize (f_div 0 prate) = Ok 0 -> f_tosize (f_div arate prate) = Ok q -> 1 <= q -> nlen cs * q < two64 ->
  Forall (fun f => map pt_name (fr_pts f) = map rtrim ps /\ nlen (fr_subs f) = q /\
                   (forall sf, In sf (fr_subs f) -> map ch_name sf = map rtrim cs)) fs ->
  nlen fs < 2147483647 ->
  run_ops f_key f_tosize f_div f_is_zero
    (map OPoint ps ++ map OAnalog cs ++ [OParam nm_POINT pr; OParam nm_ANALOG ar] ++ map (fun f => OFrame f None) fs) init = ROk tt s' ->
  frames s' = fs.
Proof. exact session_stores_the_frames. Qed.
Print Assumptions C06_recording_stores_exactly_the_frames_given.
