(* Proofs_InvRate.v — C05: setting POINT:RATE or ANALOG:RATE through c3d::parameter on an object that holds no frame yet keeps the
   whole agreement predicate; nothing but that one parameter changes in the tree.  Links the declaration phase (Proofs_InvDeclare)
   to the recording (Proofs_InvFrame): declarations_then_rates_then_recording. *)
From Coq Require Import Lia ZifyNat ZifyN ZifyBool Bool.
From EZ Require Import Base Types Api Proofs_Monad Proofs_Hoare Proofs_Lookup Proofs_Tree Proofs_Param Proofs_Guards Spec_Inv Proofs_Inv
  Proofs_Header Spec_Typed Proofs_Store Proofs_Updaters Proofs_ApiSafe Proofs_InvFrame Proofs_InvParam Proofs_Declare Proofs_InvDeclare.
Local Open Scope N_scope.

(* ---------- the tree edit seen from inside the edited group ---------- *)
Lemma group_named_same_after : forall gs G p g, group_named gs G = Ok g ->
  group_named (tree_after gs G p) G = Ok (g_set_params g (upsert param p_name (g_params g) p)).
Proof.
  intros gs G p g H. unfold group_named, group_idx in H.
  destruct (find_idx (fun g0 => bstr_eqb (g_name g0) G) gs 0) as [i|] eqn:F; [|discriminate]. cbn [obind] in H. unfold group_at in H.
  pose proof (find_idx_bound _ _ _ _ _ F) as B. rewrite N.add_0_l in B.
  pose proof (find_idx_some _ _ _ _ _ F) as [_ [g0 [Hi [Pg _]]]]. rewrite N.sub_0_r in Hi.
  pose proof H as H0. apply at_ok in H0. destruct H0 as [_ Hn]. rewrite Hn in Hi. injection Hi as <-.
  unfold tree_after. rewrite F, Hn. set (g' := g_set_params g (upsert param p_name (g_params g) p)).
  unfold group_named, group_idx.
  assert (K : find_idx (fun y => bstr_eqb (g_name y) G) (replace_nth (N.to_nat i) g' gs) 0 = Some i).
  { rewrite (find_same_key_replace group g_name gs g' i G); [exact F|]. apply bstr_eqb_eq in Pg. cbn [g' g_set_params g_name]. rewrite Pg. exact F. }
  rewrite K. cbn [obind]. unfold group_at. apply at_replace_same. exact B.
Qed.
Lemma lookup_same_group_other : forall gs G p n g, group_named gs G = Ok g -> n <> p_name p ->
  lookup (tree_after gs G p) G n = lookup gs G n.
Proof.
  intros gs G p n g H Hn. unfold lookup. rewrite (group_named_same_after gs G p g H), H. cbn [obind].
  apply lookup_other_after_upsert. exact Hn.
Qed.
Lemma lookup_same_group_same : forall gs G p g, group_named gs G = Ok g -> p_type p <> TNone ->
  lookup (tree_after gs G p) G (p_name p) = Ok p.
Proof.
  intros gs G p g H Ht. unfold lookup. rewrite (group_named_same_after gs G p g H). cbn [obind]. apply lookup_after_upsert. exact Ht.
Qed.

Section WithOps.
Variable f_key : f32 -> outcome Z.
Variable f_tosize : f32 -> outcome N.
Variable f_div : f32 -> f32 -> f32.
Variable f_is_zero : f32 -> bool.
Hypothesis f_key_nt : forall x e, f_key x <> Throw e.
Hypothesis f_tosize_nt : forall x e, f_tosize x <> Throw e.

(* the agreement of a frame-less object, assembled from the eleven look-ups and the closing updateHeader *)
Lemma inv_frameless_assemble : forall s1 s' np na,
  update_header f_key f_tosize f_div true s1 = ROk tt s' -> frames s1 = [] -> exact (hdr s1) ->
  h_nb_analogs (hdr s1) * h_byframe (hdr s') < two64 -> na * h_byframe (hdr s') < two64 ->
  lk_int0 (groups s1) nm_POINT nm_FRAMES = Some 0 -> lk_int0 (groups s1) nm_POINT nm_USED = Some np ->
  lk_count (groups s1) nm_POINT nm_LABELS = Some np -> lk_count (groups s1) nm_POINT nm_DESCRIPTIONS = Some np ->
  lk_count (groups s1) nm_POINT nm_UNITS = Some np -> lk_int0 (groups s1) nm_ANALOG nm_USED = Some na ->
  lk_count (groups s1) nm_ANALOG nm_LABELS = Some na -> lk_count (groups s1) nm_ANALOG nm_DESCRIPTIONS = Some na ->
  lk_count (groups s1) nm_ANALOG nm_SCALE = Some na -> lk_count (groups s1) nm_ANALOG nm_OFFSET = Some na ->
  lk_count (groups s1) nm_ANALOG nm_UNITS = Some na ->
  Inv s' /\ exact (hdr s') /\ frames s' = [] /\ groups s' = groups s1 /\ pro s' = pro s1.
Proof.
  intros s1 s' np na U Fs Ex W1 W2 hF hPU hPL hPD hPN hAU hAL hAD hAS hAO hAN.
  pose proof (update_header_agrees f_key f_tosize f_div true s1 s' U) as (G & Fr & Pr & (u & Ru & Hu) & _ & (fz & Rf & Hf) & (ga & Ga & _ & Hga) & _).
  assert (Ex' : exact (hdr s')).
  { apply (update_header_exact f_key f_tosize f_div true s1 s' U); [exact Ex|exact W1|].
    intros au Rau. pose proof (r_int0_lk _ _ _ _ _ Rau) as X. rewrite hAU in X. injection X as <-. exact W2. }
  assert (Pts : h_points (hdr s') = np).
  { pose proof (r_int0_lk _ _ _ _ _ Ru) as X. rewrite hPU in X. injection X as X. rewrite Hu. symmetry. exact X. }
  assert (Ana : h_byframe (hdr s') <> 0 -> h_nb_analogs (hdr s') = na).
  { intros Hb. destruct (lk_int0_lookup _ _ _ _ hAU) as [pA LpA].
    destruct (Hga (lookup_params_nonempty _ _ _ _ _ LpA Ga)) as [au [Rau Hau]].
    pose proof (r_int0_lk _ _ _ _ _ Rau) as X. rewrite hAU in X. injection X as X. rewrite <- X in Hau. apply Hau; [exact Hb|exact W2]. }
  assert (Nf : h_nb_frames (hdr s') = 0).
  { pose proof (r_int0_lk _ _ _ _ _ Rf) as X. rewrite hF in X. injection X as X.
    destruct (N.eq_dec (h_points (hdr s')) 0) as [Z1|Z1]; [|rewrite Hf by (left; exact Z1); symmetry; exact X].
    destruct (N.eq_dec (h_nb_analogs (hdr s')) 0) as [Z2|Z2]; [apply nb_frames_empty_shape; assumption|rewrite Hf by (right; exact Z2); symmetry; exact X]. }
  assert (Fs' : frames s' = []) by (rewrite Fr; exact Fs).
  split; [|repeat split; assumption].
  apply inv_b_parts. cbv zeta. unfold inv_report_of. rewrite Fs', G.
  cbn [r_points_hdr r_points_frames r_frames_hdr r_frames_stored r_subframes r_analogs_hdr r_analogs_meas r_analogs_frames r_label_counts r_label_order filter forallb].
  rewrite hF, hPU, hAU, hPL, hPD, hPN, hAL, hAD, hAS, hAO, hAN.
  repeat split.
  - apply opt_eqb_some. rewrite Pts. reflexivity.
  - apply opt_eqb_some. rewrite Nf. reflexivity.
  - destruct (1 <=? h_byframe (hdr s')) eqn:B; [|reflexivity]. apply opt_eqb_some. rewrite Ana by lia. reflexivity.
  - destruct (1 <=? h_byframe (hdr s')) eqn:B; [|reflexivity]. apply N.eqb_eq. exact Ex'.
  - destruct (1 <=? h_byframe (hdr s')); reflexivity.
  - cbn [opt_eqb]. rewrite !N.eqb_refl. reflexivity.
Qed.

(* what the agreement of a frame-less object says, as look-ups *)
Lemma inv_frameless_lookups : forall s, Inv s -> frames s = [] -> exists np na,
  lk_int0 (groups s) nm_POINT nm_FRAMES = Some 0 /\ lk_int0 (groups s) nm_POINT nm_USED = Some np /\
  lk_count (groups s) nm_POINT nm_LABELS = Some np /\ lk_count (groups s) nm_POINT nm_DESCRIPTIONS = Some np /\
  lk_count (groups s) nm_POINT nm_UNITS = Some np /\ lk_int0 (groups s) nm_ANALOG nm_USED = Some na /\
  lk_count (groups s) nm_ANALOG nm_LABELS = Some na /\ lk_count (groups s) nm_ANALOG nm_DESCRIPTIONS = Some na /\
  lk_count (groups s) nm_ANALOG nm_SCALE = Some na /\ lk_count (groups s) nm_ANALOG nm_OFFSET = Some na /\
  lk_count (groups s) nm_ANALOG nm_UNITS = Some na.
Proof.
  intros s HI Fs. apply inv_b_parts in HI. cbv zeta in HI. destruct HI as (_ & _ & _ & I4 & _ & _ & _ & _ & I9 & _).
  unfold inv_report_of in I4, I9. cbn [r_frames_stored r_label_counts] in I4, I9. rewrite Fs in I4. apply opt_eqb_some in I4.
  destruct (lk_int0 (groups s) nm_POINT nm_USED) as [u|] eqn:Eu; [|discriminate].
  destruct (lk_int0 (groups s) nm_ANALOG nm_USED) as [a|] eqn:Ea; [|discriminate].
  rewrite !andb_true_iff in I9. destruct I9 as [[[[[[[C1 C2] C3] C4] C5] C6] C7] C8].
  apply opt_eqb_some in C1, C2, C3, C4, C5, C6, C7, C8. exists u, a. repeat split; assumption.
Qed.

Theorem rate_keeps_inv : forall G p s s' na,
  (G = nm_POINT \/ G = nm_ANALOG) -> p_name p = nm_RATE -> kind_ok KFlt1 p = true ->
  Inv s -> MT (groups s) -> exact (hdr s) -> frames s = [] ->
  lk_int0 (groups s) nm_ANALOG nm_USED = Some na ->
  h_nb_analogs (hdr s) * h_byframe (hdr s') < two64 -> na * h_byframe (hdr s') < two64 ->
  api_parameter f_key f_tosize f_div G p s = ROk tt s' ->
  Inv s' /\ MT (groups s') /\ exact (hdr s') /\ frames s' = [] /\ pro s' = pro s /\
  lookup (groups s') G nm_RATE = Ok p /\
  (forall g n, (g <> G \/ n <> nm_RATE) -> lookup (groups s') g n = lookup (groups s) g n).
Proof.
  intros G p s s' na HG Hn Kp HI HM Ex Fs hAU0 W1 W2 H.
  assert (Nn : p_name p <> []) by (rewrite Hn; discriminate).
  assert (Tf : p_type p = TFloat).
  { unfold kind_ok, type_ok in Kp. apply andb_prop in Kp. destruct Kp as [T _]. destruct (p_type p); try discriminate. reflexivity. }
  assert (Ht : p_type p <> TNone) by (rewrite Tf; discriminate).
  rewrite (api_parameter_factor f_key f_tosize f_div G p s Nn Ht) in H.
  set (gs' := tree_after (groups s) G p) in *.
  (* the group exists: it holds a mandatory parameter *)
  assert (GE : exists g, group_named (groups s) G = Ok g).
  { destruct HG as [-> | ->].
    - destruct (MT_lookup _ nm_POINT nm_RATE KFlt1 HM) as [q [Lq _]]; [in_mand|]. unfold lookup in Lq.
      destruct (group_named (groups s) nm_POINT) as [g| |]; cbn [obind] in Lq; try discriminate. eauto.
    - destruct (MT_lookup _ nm_ANALOG nm_RATE KFlt1 HM) as [q [Lq _]]; [in_mand|]. unfold lookup in Lq.
      destruct (group_named (groups s) nm_ANALOG) as [g| |]; cbn [obind] in Lq; try discriminate. eauto. }
  destruct GE as [g0 Hg0].
  assert (LO : forall g n, (g <> G \/ n <> nm_RATE) -> lookup gs' g n = lookup (groups s) g n).
  { intros g n Hne. destruct (bstr_dec g G) as [->|Ng].
    - destruct Hne as [X|X]; [congruence|]. apply (lookup_same_group_other _ _ _ _ g0 Hg0). rewrite Hn. exact X.
    - apply lookup_other_group. exact Ng. }
  assert (LS : lookup gs' G nm_RATE = Ok p) by (rewrite <- Hn; apply (lookup_same_group_same _ _ _ g0 Hg0 Ht)).
  (* well-typedness of the mandatory parameters *)
  assert (HM' : MT gs').
  { unfold MT, mt_b. apply forallb_forall. intros [[g n] k] Hin. unfold mt_entry.
    destruct (bstr_dec g G) as [Eg|Ng]; [destruct (bstr_dec n nm_RATE) as [En|Nn2]|].
    - subst g n. rewrite LS. assert (k = KFlt1).
      { destruct HG as [-> | ->]; [apply (MAND_fun nm_POINT nm_RATE k KFlt1 Hin); in_mand|apply (MAND_fun nm_ANALOG nm_RATE k KFlt1 Hin); in_mand]. }
      subst k. exact Kp.
    - rewrite (LO g n (or_intror Nn2)). destruct (MT_lookup _ g n k HM Hin) as [q [Lq Kq]]. rewrite Lq. exact Kq.
    - rewrite (LO g n (or_introl Ng)). destruct (MT_lookup _ g n k HM Hin) as [q [Lq Kq]]. rewrite Lq. exact Kq. }
  destruct (inv_frameless_lookups s HI Fs) as (np & na' & hF & hPU & hPL & hPD & hPN & hAU & hAL & hAD & hAS & hAO & hAN).
  rewrite hAU0 in hAU. injection hAU as <-.
  assert (NR : forall n, n <> nm_RATE -> forall g, lookup gs' g n = lookup (groups s) g n) by (intros n X g; apply LO; right; exact X).
  assert (T1 : forall n x, n <> nm_RATE -> forall g, lk_int0 (groups s) g n = x -> lk_int0 gs' g n = x).
  { intros n x X g Hx. rewrite (lk_int0_ext (groups s) gs' g n (NR n X g)). exact Hx. }
  assert (T2 : forall n x, n <> nm_RATE -> forall g, lk_count (groups s) g n = x -> lk_count gs' g n = x).
  { intros n x X g Hx. rewrite (lk_count_ext (groups s) gs' g n (NR n X g)). exact Hx. }
  assert (N1 : nm_FRAMES <> nm_RATE) by discriminate. assert (N2 : nm_USED <> nm_RATE) by discriminate.
  assert (N3 : nm_LABELS <> nm_RATE) by discriminate. assert (N4 : nm_DESCRIPTIONS <> nm_RATE) by discriminate.
  assert (N5 : nm_UNITS <> nm_RATE) by discriminate. assert (N6 : nm_SCALE <> nm_RATE) by discriminate.
  assert (N7 : nm_OFFSET <> nm_RATE) by discriminate.
  destruct (inv_frameless_assemble (set_groups s gs') s' np na H Fs Ex W1 W2
              (T1 _ _ N1 _ hF) (T1 _ _ N2 _ hPU) (T2 _ _ N3 _ hPL) (T2 _ _ N4 _ hPD)
              (T2 _ _ N5 _ hPN) (T1 _ _ N2 _ hAU0) (T2 _ _ N3 _ hAL) (T2 _ _ N4 _ hAD)
              (T2 _ _ N6 _ hAS) (T2 _ _ N7 _ hAO) (T2 _ _ N5 _ hAN)) as (I' & E' & F' & G' & P').
  cbn [groups pro set_groups] in G', P'.
  repeat split; try assumption; rewrite G'; assumption.
Qed.

(* the header's sub-frame count of an object without data when the point rate is NOT zero: the truncated ratio of the rates *)
Lemma update_header_byframe_ratio : forall b s s' rate ar q ga,
  update_header f_key f_tosize f_div b s = ROk tt s' -> first_frame b s = None ->
  r_float0 12 (groups s) nm_POINT nm_RATE = Ok rate -> f32_is_zero rate = false ->
  r_float0 15 (groups s) nm_ANALOG nm_RATE = Ok ar -> f_tosize (f_div ar rate) = Ok q ->
  group_named (groups s) nm_ANALOG = Ok ga -> g_params ga <> [] -> h_byframe (hdr s') = q.
Proof.
  intros b s s' rate ar q ga H Ff Hr Hz Har Hq Hga Hne. apply update_header_factor in H. destruct H as [P _]. unfold uh_pure in P.
  destruct (rate_points_pure f_key (groups s) (hdr s)) as [[rate' h2]| |] eqn:E2; cbn [obind] in P; try discriminate.
  destruct (byframe_pure f_tosize f_div (groups s) (first_frame b s) rate' h2) as [h3| |] eqn:E3; cbn [obind] in P; try discriminate.
  destruct (analogs_pure (groups s) h3) as [h4| |] eqn:E4; cbn [obind] in P; try discriminate.
  destruct (rate_points_spec _ _ _ _ _ E2) as [R1 _]. rewrite Hr in R1. injection R1 as <-.
  destruct (analogs_spec _ _ _ E4) as [_ [_ [B4 _]]].
  destruct (frames_spec _ _ _ P) as [_ [_ [B5 _]]].
  rewrite B5, B4. rewrite Ff in E3. unfold byframe_pure in E3. rewrite Hga in E3. cbn [obind] in E3.
  assert (Nz : negb (nlen (g_params ga) =? 0) = true) by (destruct (g_params ga); [congruence|reflexivity]).
  rewrite Nz, Hz in E3. unfold r_float0 in Har, E3. rewrite Har in E3. cbn [obind] in E3. rewrite Hq in E3. cbn [obind] in E3.
  destruct (negb (q =? h_byframe h2)) eqn:Q; [injection E3 as <-; reflexivity|].
  injection E3 as <-. apply Bool.negb_false_iff in Q. apply N.eqb_eq in Q. symmetry. exact Q.
Qed.

Lemma run_ops_frames : forall fs s, run_ops f_key f_tosize f_div f_is_zero (map (fun f => OFrame f None) fs) s = run_frames f_key f_tosize f_div f_is_zero fs s.
Proof.
  induction fs as [|f t IH]; intros s; cbn [map run_ops run_frames step]; [reflexivity|].
  destruct (api_frame f_key f_tosize f_div f_is_zero f None s) as [[] s1| |]; [apply IH|reflexivity|reflexivity].
Qed.

Lemma run_ops_app_intro : forall a b s s1 s', run_ops f_key f_tosize f_div f_is_zero a s = ROk tt s1 ->
  run_ops f_key f_tosize f_div f_is_zero b s1 = ROk tt s' -> run_ops f_key f_tosize f_div f_is_zero (a ++ b) s = ROk tt s'.
Proof.
  induction a as [|o a IH]; intros b s s1 s' H1 H2; cbn [app run_ops] in *; [injection H1 as <-; exact H2|].
  destruct (step f_key f_tosize f_div f_is_zero s o) as [[] sx| |]; try discriminate. exact (IH b sx s1 s' H1 H2).
Qed.

(* THE WHOLE SESSION from the constructor: declare the points, declare the channels, set POINT:RATE, set ANALOG:RATE, record.
   For every list of point names, every non-empty list of channel names, every pair of rates whose truncated ratio q is at
   least 1, and every list of frames that carry the declared names in order with q sub-frames each: if the calls return
   normally, header, parameters and stored frames agree at the end and the data set holds exactly the frames supplied. *)
Theorem declarations_then_rates_then_recording : forall ps cs pr ar prate arate tp ta q fs s',
  cs <> [] -> nlen ps < 2147483648 -> nlen cs < 2147483648 ->
  p_name pr = nm_RATE -> kind_ok KFlt1 pr = true -> values_as_float pr = Ok (prate :: tp) -> f32_is_zero prate = false ->
  p_name ar = nm_RATE -> kind_ok KFlt1 ar = true -> values_as_float ar = Ok (arate :: ta) ->
  f_tosize (f_div 0 prate) = Ok 0 -> f_tosize (f_div arate prate) = Ok q -> 1 <= q -> nlen cs * q < two64 ->
  Forall (fun f => map pt_name (fr_pts f) = map rtrim ps /\ nlen (fr_subs f) = q /\
                   (forall sf, In sf (fr_subs f) -> map ch_name sf = map rtrim cs)) fs ->
  nlen fs < 2147483647 ->
  run_ops f_key f_tosize f_div f_is_zero
    (map OPoint ps ++ map OAnalog cs ++ [OParam nm_POINT pr; OParam nm_ANALOG ar] ++ map (fun f => OFrame f None) fs) init = ROk tt s' ->
  Inv s' /\ frames s' = fs /\
  (exists s3, run_ops f_key f_tosize f_div f_is_zero (map OPoint ps ++ map OAnalog cs ++ [OParam nm_POINT pr]) init = ROk tt s3 /\ Inv s3).
Proof.
  intros ps cs pr ar prate arate tp ta q fs s' Hcs SP SA Np Kp Vp Zp Na Ka Va Q0 Q1 Q1' QB An SF H.
  rewrite app_assoc in H. destruct (run_ops_app _ _ _ _ _ _ _ _ H) as [s2 [H12 H2]].
  assert (UR : untouched [(nm_ANALOG, nm_RATE, Vflt0 0)]).
  { unfold untouched, apart. repeat split; (apply Forall_cons; [cbn [fst snd]; first [left; discriminate|right; discriminate]|apply Forall_nil]). }
  assert (HR : Forall (holds (groups init)) [(nm_ANALOG, nm_RATE, Vflt0 0)]).
  { constructor; [apply (r_float0_holds 15); vm_compute; reflexivity|constructor]. }
  destruct (declarations_from_init_carrying f_key f_tosize f_div f_is_zero f_key_nt f_tosize_nt ps cs s2 _ UR HR SP SA H12) as [D2 HX2].
  destruct D2 as (I2 & M2 & E2 & F2 & LP2 & LA2 & _ & Hb2).
  assert (AR0 : lookup (groups s2) nm_ANALOG nm_RATE <> Throw InvalidArgument /\ r_float0 15 (groups s2) nm_ANALOG nm_RATE = Ok 0).
  { apply Forall_inv in HX2. split; [destruct HX2 as [p0 [L0 _]]; cbn [fst snd] in L0; rewrite L0; discriminate|apply holds_vflt0; exact HX2]. }
  destruct AR0 as [_ AR0].
  destruct (inv_frameless_lookups s2 I2 F2) as (np & na & hF & hPU & hPL & hPD & hPN & hAU & hAL & hAD & hAS & hAO & hAN).
  assert (Ena : na = nlen cs).
  { rewrite (lk_strs_count _ _ _ _ LA2) in hAL. injection hAL as <-. unfold nlen. rewrite map_length. reflexivity. }
  assert (Nna : na <> 0) by (rewrite Ena; destruct cs; [congruence|unfold nlen; cbn [length]; lia]).
  assert (NPA : nm_ANALOG <> nm_POINT) by discriminate. assert (NAP : nm_POINT <> nm_ANALOG) by discriminate.
  assert (Tp : p_type pr <> TNone /\ p_name pr <> []).
  { split; [|rewrite Np; discriminate]. unfold kind_ok, type_ok in Kp. apply andb_prop in Kp. destruct Kp as [T _]. destruct (p_type pr); try discriminate. }
  assert (Ta : p_type ar <> TNone /\ p_name ar <> []).
  { split; [|rewrite Na; discriminate]. unfold kind_ok, type_ok in Ka. apply andb_prop in Ka. destruct Ka as [T _]. destruct (p_type ar); try discriminate. }
  cbn [app run_ops step] in H2.
  destruct (api_parameter f_key f_tosize f_div nm_POINT pr s2) as [[] s3| |] eqn:E3; try discriminate.
  destruct (api_parameter f_key f_tosize f_div nm_ANALOG ar s3) as [[] s4| |] eqn:E4; try discriminate.
  (* --- POINT:RATE --- *)
  assert (B3 : h_byframe (hdr s3) = 0).
  { pose proof E3 as U. rewrite (api_parameter_factor f_key f_tosize f_div nm_POINT pr s2 (proj2 Tp) (proj1 Tp)) in U.
    destruct (MT_lookup _ nm_POINT nm_RATE KFlt1 M2) as [q0 [Lq0 _]]; [in_mand|].
    assert (GP : exists g, group_named (groups s2) nm_POINT = Ok g).
    { unfold lookup in Lq0. destruct (group_named (groups s2) nm_POINT) as [g| |]; cbn [obind] in Lq0; try discriminate. eauto. }
    destruct GP as [gP HgP].
    destruct (lk_int0_lookup _ _ _ _ hAU) as [pA LpA].
    assert (GA : exists g, group_named (groups s2) nm_ANALOG = Ok g).
    { unfold lookup in LpA. destruct (group_named (groups s2) nm_ANALOG) as [g| |]; cbn [obind] in LpA; try discriminate. eauto. }
    destruct GA as [gA HgA].
    apply (update_header_byframe_ratio true _ s3 prate 0 0 gA U).
    - unfold first_frame. cbn [frames set_groups]. rewrite F2. reflexivity.
    - cbn [groups set_groups]. unfold r_float0. rewrite <- Np. rewrite (lookup_same_group_same _ _ _ gP HgP (proj1 Tp)). cbn [obind]. rewrite Vp. cbn [obind]. apply at0_cons.
    - exact Zp.
    - cbn [groups set_groups]. unfold r_float0. rewrite (lookup_other_group _ _ _ _ _ NPA). exact AR0.
    - exact Q0.
    - cbn [groups set_groups]. rewrite (group_named_other _ _ _ _ NPA). exact HgA.
    - exact (lookup_params_nonempty _ _ _ _ _ LpA HgA). }
  destruct (rate_keeps_inv nm_POINT pr s2 s3 na (or_introl eq_refl) Np Kp I2 M2 E2 F2 hAU) as (I3 & M3 & X3 & F3 & _ & LS3 & LO3); try exact E3;
    try (rewrite B3; unfold two64; lia).
  (* --- ANALOG:RATE --- *)
  assert (hAU3 : lk_int0 (groups s3) nm_ANALOG nm_USED = Some na).
  { rewrite (lk_int0_ext (groups s2) (groups s3) _ _ (LO3 _ _ (or_introl NPA))). exact hAU. }
  assert (B4 : h_byframe (hdr s4) = q).
  { pose proof E4 as U. rewrite (api_parameter_factor f_key f_tosize f_div nm_ANALOG ar s3 (proj2 Ta) (proj1 Ta)) in U.
    destruct (lk_int0_lookup _ _ _ _ hAU3) as [pA LpA].
    assert (GA : exists g, group_named (groups s3) nm_ANALOG = Ok g).
    { unfold lookup in LpA. destruct (group_named (groups s3) nm_ANALOG) as [g| |]; cbn [obind] in LpA; try discriminate. eauto. }
    destruct GA as [gA HgA].
    pose proof (group_named_same_after _ _ ar _ HgA) as HgA'.
    apply (update_header_byframe_ratio true _ s4 prate arate q (g_set_params gA (upsert param p_name (g_params gA) ar)) U).
    - unfold first_frame. cbn [frames set_groups]. rewrite F3. reflexivity.
    - cbn [groups set_groups]. unfold r_float0. rewrite (lookup_other_group _ _ _ _ _ NAP). rewrite LS3. cbn [obind]. rewrite Vp. cbn [obind]. apply at0_cons.
    - exact Zp.
    - cbn [groups set_groups]. unfold r_float0. rewrite <- Na. rewrite (lookup_same_group_same _ _ _ gA HgA (proj1 Ta)). cbn [obind]. rewrite Va. cbn [obind]. apply at0_cons.
    - exact Q1.
    - cbn [groups set_groups]. exact HgA'.
    - cbn [g_set_params g_params]. unfold upsert. destruct (find_idx _ (g_params gA) 0) as [i|].
      + pose proof (lookup_params_nonempty _ _ _ _ _ LpA HgA) as Ne. destruct (g_params gA) as [|x t]; [congruence|]. destruct (N.to_nat i); cbn [replace_nth]; discriminate.
      + destruct (g_params gA); discriminate. }
  assert (NB3 : h_nb_analogs (hdr s3) = 0) by (unfold h_nb_analogs; rewrite B3; reflexivity).
  destruct (rate_keeps_inv nm_ANALOG ar s3 s4 na (or_intror eq_refl) Na Ka I3 M3 X3 F3 hAU3) as (I4 & M4 & _ & F4 & _ & _ & LO4); try exact E4;
    try (rewrite B4; first [rewrite NB3; unfold two64; lia | rewrite Ena; exact QB]).
  assert (N1 : nm_USED <> nm_RATE) by discriminate. assert (N2 : nm_LABELS <> nm_RATE) by discriminate.
  assert (hAU4 : lk_int0 (groups s4) nm_ANALOG nm_USED = Some na).
  { rewrite (lk_int0_ext (groups s3) (groups s4) _ _ (LO4 _ _ (or_intror N1))). exact hAU3. }
  assert (LP4 : lk_strs (groups s4) nm_POINT nm_LABELS = Some (map rtrim ps)).
  { rewrite (lk_strs_ext (groups s3) (groups s4) _ _ (LO4 _ _ (or_intror N2))), (lk_strs_ext (groups s2) (groups s3) _ _ (LO3 _ _ (or_intror N2))). exact LP2. }
  assert (LA4 : lk_strs (groups s4) nm_ANALOG nm_LABELS = Some (map rtrim cs)).
  { rewrite (lk_strs_ext (groups s3) (groups s4) _ _ (LO4 _ _ (or_intror N2))), (lk_strs_ext (groups s2) (groups s3) _ _ (LO3 _ _ (or_intror N2))). exact LA2. }
  (* --- the recording --- *)
  rewrite run_ops_frames in H2.
  assert (XS3 : exists s3', run_ops f_key f_tosize f_div f_is_zero (map OPoint ps ++ map OAnalog cs ++ [OParam nm_POINT pr]) init = ROk tt s3' /\ Inv s3').
  { exists s3. split; [|exact I3]. rewrite app_assoc. apply run_ops_app_intro with (s1 := s2); [exact H12|]. cbn [run_ops step]. rewrite E3. reflexivity. }
  destruct fs as [|f t].
  - cbn [run_frames] in H2. injection H2 as <-. auto.
  - cut (Inv s' /\ frames s' = f :: t); [intros [A B]; auto|].
    assert (AN : Forall (announced s4) (f :: t)).
    { apply Forall_forall. intros g Hg. rewrite Forall_forall in An. destruct (An g Hg) as [A1 [A2 A3]]. split; [|split].
      - rewrite LP4, A1. reflexivity.
      - rewrite B4. exact A2.
      - intros sf Hin. rewrite LA4, (A3 sf Hin). reflexivity. }
    assert (Pf : nlen (fr_pts f) < 2147483648).
    { apply Forall_inv in An. destruct An as [A1 _]. assert (X : length (fr_pts f) = length ps) by (rewrite <- (map_length pt_name), A1, map_length; reflexivity).
      unfold nlen in *. rewrite X. exact SP. }
    apply (recording_from_empty_keeps_inv f_key f_tosize f_div f_is_zero f_key_nt f_tosize_nt f t s4 s' na I4 M4 F4 hAU4 Nna); try assumption.
    + rewrite B4. exact Q1'.
    + unfold nlen in *. cbn [length] in SF. lia.
    + rewrite Ena. exact SA.
    + rewrite B4, Ena. exact QB.
Qed.
Corollary session_end : forall ps cs pr ar prate arate tp ta q fs s',
  cs <> [] -> nlen ps < 2147483648 -> nlen cs < 2147483648 ->
  p_name pr = nm_RATE -> kind_ok KFlt1 pr = true -> values_as_float pr = Ok (prate :: tp) -> f32_is_zero prate = false ->
  p_name ar = nm_RATE -> kind_ok KFlt1 ar = true -> values_as_float ar = Ok (arate :: ta) ->
  f_tosize (f_div 0 prate) = Ok 0 -> f_tosize (f_div arate prate) = Ok q -> 1 <= q -> nlen cs * q < two64 ->
  Forall (fun f => map pt_name (fr_pts f) = map rtrim ps /\ nlen (fr_subs f) = q /\
                   (forall sf, In sf (fr_subs f) -> map ch_name sf = map rtrim cs)) fs ->
  nlen fs < 2147483647 ->
  run_ops f_key f_tosize f_div f_is_zero
    (map OPoint ps ++ map OAnalog cs ++ [OParam nm_POINT pr; OParam nm_ANALOG ar] ++ map (fun f => OFrame f None) fs) init = ROk tt s' ->
  Inv s' /\ frames s' = fs.
Proof.
  intros ps cs pr ar prate arate tp ta q fs s' H1 H2 H3 H4 H5 H6 H7 H8 H9 H10 H11 H12 H13 H14 H15 H16 H.
  destruct (declarations_then_rates_then_recording ps cs pr ar prate arate tp ta q fs s' H1 H2 H3 H4 H5 H6 H7 H8 H9 H10 H11 H12 H13 H14 H15 H16 H) as (A & B & _). auto.
Qed.

Corollary session_stores_the_frames : forall ps cs pr ar prate arate tp ta q fs s',
  cs <> [] -> nlen ps < 2147483648 -> nlen cs < 2147483648 ->
  p_name pr = nm_RATE -> kind_ok KFlt1 pr = true -> values_as_float pr = Ok (prate :: tp) -> f32_is_zero prate = false ->
  p_name ar = nm_RATE -> kind_ok KFlt1 ar = true -> values_as_float ar = Ok (arate :: ta) ->
  f_tosize (f_div 0 prate) = Ok 0 -> f_tosize (f_div arate prate) = Ok q -> 1 <= q -> nlen cs * q < two64 ->
  Forall (fun f => map pt_name (fr_pts f) = map rtrim ps /\ nlen (fr_subs f) = q /\
                   (forall sf, In sf (fr_subs f) -> map ch_name sf = map rtrim cs)) fs ->
  nlen fs < 2147483647 ->
  run_ops f_key f_tosize f_div f_is_zero
    (map OPoint ps ++ map OAnalog cs ++ [OParam nm_POINT pr; OParam nm_ANALOG ar] ++ map (fun f => OFrame f None) fs) init = ROk tt s' ->
  frames s' = fs.
Proof.
  intros ps cs pr ar prate arate tp ta q fs s' H1 H2 H3 H4 H5 H6 H7 H8 H9 H10 H11 H12 H13 H14 H15 H16 H.
  exact (proj2 (session_end ps cs pr ar prate arate tp ta q fs s' H1 H2 H3 H4 H5 H6 H7 H8 H9 H10 H11 H12 H13 H14 H15 H16 H)).
Qed.

(* ... AT EVERY INTERMEDIATE STATE, not only at the end: whatever prefix of the session has been carried out — some of the
   declarations, all of them, the first rate, both rates, some of the frames — header, parameters and stored data agree *)
Theorem session_every_intermediate_state : forall ps cs pr ar prate arate tp ta q fs s' pre post sk,
  cs <> [] -> nlen ps < 2147483648 -> nlen cs < 2147483648 ->
  p_name pr = nm_RATE -> kind_ok KFlt1 pr = true -> values_as_float pr = Ok (prate :: tp) -> f32_is_zero prate = false ->
  p_name ar = nm_RATE -> kind_ok KFlt1 ar = true -> values_as_float ar = Ok (arate :: ta) ->
  f_tosize (f_div 0 prate) = Ok 0 -> f_tosize (f_div arate prate) = Ok q -> 1 <= q -> nlen cs * q < two64 ->
  Forall (fun f => map pt_name (fr_pts f) = map rtrim ps /\ nlen (fr_subs f) = q /\
                   (forall sf, In sf (fr_subs f) -> map ch_name sf = map rtrim cs)) fs ->
  nlen fs < 2147483647 ->
  run_ops f_key f_tosize f_div f_is_zero
    (map OPoint ps ++ map OAnalog cs ++ [OParam nm_POINT pr; OParam nm_ANALOG ar] ++ map (fun f => OFrame f None) fs) init = ROk tt s' ->
  map OPoint ps ++ map OAnalog cs ++ [OParam nm_POINT pr; OParam nm_ANALOG ar] ++ map (fun f => OFrame f None) fs = pre ++ post ->
  run_ops f_key f_tosize f_div f_is_zero pre init = ROk tt sk ->
  Inv sk.
Proof.
  intros ps cs pr ar prate arate tp ta q fs s' pre post sk Hcs SP SA Np Kp Vp Zp Na Ka Va Q0 Q1 Q1' QB An SF Hfull Esplit Hpre.
  destruct (app_eq_app _ _ _ _ Esplit) as [l [[EA _]|[Epre EX]]].
  - (* within the point declarations *)
    destruct (map_eq_app _ _ _ _ EA) as (ps1 & ps2 & Eps & M1 & _). subst pre.
    assert (H1 : run_ops f_key f_tosize f_div f_is_zero (map OPoint ps1 ++ map OAnalog []) init = ROk tt sk) by (cbn [map]; rewrite app_nil_r; exact Hpre).
    destruct (declarations_from_init f_key f_tosize f_div f_is_zero f_key_nt f_tosize_nt ps1 [] sk) as [D _]; try exact H1.
    + rewrite Eps in SP. unfold nlen in *. rewrite app_length in SP. lia.
    + unfold nlen. cbn [length]. lia.
    + apply D.
  - destruct (app_eq_app _ _ _ _ EX) as [l2 [[EB _]|[El ER]]].
    + (* within the channel declarations *)
      destruct (map_eq_app _ _ _ _ EB) as (cs1 & cs2 & Ecs & M1 & _). subst pre l.
      destruct (declarations_from_init f_key f_tosize f_div f_is_zero f_key_nt f_tosize_nt ps cs1 sk) as [D _]; try exact Hpre; try exact SP.
      * rewrite Ecs in SA. unfold nlen in *. rewrite app_length in SA. lia.
      * apply D.
    + subst l. destruct l2 as [|x l2'].
      * (* all the declarations *)
        rewrite app_nil_r in Epre. subst pre.
        destruct (declarations_from_init f_key f_tosize f_div f_is_zero f_key_nt f_tosize_nt ps cs sk) as [D _]; try assumption. apply D.
      * cbn [app] in ER. injection ER as Ex ER. subst x. destruct l2' as [|y l2''].
        -- (* the point rate has been set *)
           destruct (declarations_then_rates_then_recording ps cs pr ar prate arate tp ta q fs s') as (_ & _ & (s3 & R3 & I3)); try assumption.
           subst pre. rewrite R3 in Hpre. injection Hpre as <-. exact I3.
        -- cbn [app] in ER. injection ER as Ey ER. subst y.
           (* both rates set, some of the frames recorded *)
           destruct (map_eq_app _ _ _ _ ER) as (fs1 & fs2 & Efs & M1 & _). subst pre. rewrite <- M1 in Hpre.
           assert (An1 : Forall (fun f => map pt_name (fr_pts f) = map rtrim ps /\ nlen (fr_subs f) = q /\
                                          (forall sf, In sf (fr_subs f) -> map ch_name sf = map rtrim cs)) fs1).
           { rewrite Efs in An. apply Forall_app in An. apply An. }
           assert (SF1 : nlen fs1 < 2147483647) by (rewrite Efs in SF; unfold nlen in *; rewrite app_length in SF; lia).
           destruct (declarations_then_rates_then_recording ps cs pr ar prate arate tp ta q fs1 sk) as (I & _ & _); assumption.
Qed.
End WithOps.
