(* Properties_C09.v — C09: parameter and group edits change exactly what was asked.
   Statements only; proofs in Proofs_Param.v.  The float operations of the header updater
   are arbitrary (Section variables instantiated here by universally quantified functions):
   the theorems hold whatever the hardware computes. *)
From EZ Require Import Base Types Api Proofs_Lookup Proofs_Param Float32 Run.
Local Open Scope N_scope.

(* c3d::parameter(g, p), when it returns normally: the parameter tree is exactly tree_after —
   the first group named g with p replacing the first parameter of p's name or appended, or a
   new group [p] appended when there is no group g; frames and section prologue untouched *)
Theorem C09_parameter_effect : forall f_key f_tosize f_div gname p s s',
  api_parameter f_key f_tosize f_div gname p s = ROk tt s' ->
  groups s' = tree_after (groups s) gname p /\ frames s' = frames s /\ pro s' = pro s /\
  p_name p <> [] /\ p_type p <> TNone.
Proof. exact api_parameter_tree. Qed.
Print Assumptions C09_parameter_effect.

(* afterwards looking it up returns the given type, dimensions, values, description and lock state *)
Theorem C09_lookup_returns_given : forall gs gname p, p_type p <> TNone ->
  lookup (tree_after gs gname p) gname (p_name p) = Ok p.
Proof. exact lookup_after. Qed.
Print Assumptions C09_lookup_returns_given.

(* the group: created if absent (empty description, unlocked), otherwise same description and lock;
   its parameters are the old ones with p replaced in place or appended *)
Theorem C09_group_after : forall gs gname p,
  exists gr, group_named (tree_after gs gname p) gname = Ok gr /\ g_name gr = gname /\
    g_params gr = match group_named gs gname with Ok g0 => upsert param p_name (g_params g0) p | _ => [p] end /\
    match group_named gs gname with
    | Ok g0 => g_desc gr = g_desc g0 /\ g_lock gr = g_lock g0
    | _ => g_desc gr = [] /\ g_lock gr = false
    end.
Proof. exact group_named_after. Qed.
Print Assumptions C09_group_after.

(* replace in place or append: names keep their positions *)
Theorem C09_param_positions : forall l p,
  map p_name (upsert param p_name l p) = map p_name l \/ map p_name (upsert param p_name l p) = map p_name l ++ [p_name p].
Proof. exact (upsert_keys param p_name). Qed.
Print Assumptions C09_param_positions.

Theorem C09_other_params_unchanged : forall l p j q,
  nth_error l j = Some q -> p_name q <> p_name p -> nth_error (upsert param p_name l p) j = Some q.
Proof. exact (upsert_others param p_name). Qed.
Print Assumptions C09_other_params_unchanged.

Theorem C09_other_param_lookup : forall gs gname p n, n <> p_name p ->
  lookup (tree_after gs gname p) gname n =
    match group_named gs gname with Ok _ => lookup gs gname n | _ => Throw InvalidArgument end.
Proof. exact lookup_other_param. Qed.
Print Assumptions C09_other_param_lookup.

(* every other group is unchanged and keeps its position; at most one group is added, at the end *)
Theorem C09_other_groups_unchanged : forall gs gname p j gr,
  nth_error gs j = Some gr -> g_name gr <> gname -> nth_error (tree_after gs gname p) j = Some gr.
Proof. exact other_groups_unchanged. Qed.
Print Assumptions C09_other_groups_unchanged.

Theorem C09_group_positions : forall gs gname p,
  map g_name (tree_after gs gname p) = map g_name gs \/ map g_name (tree_after gs gname p) = map g_name gs ++ [gname].
Proof. exact group_names_after. Qed.
Print Assumptions C09_group_positions.

(* giving values with explicit dimensions: accepted exactly when the count equals the product
   (empty data only with an empty or zero-sized shape) — for products within the C++ int range *)
Theorem C09_shape_rule : forall n dims, prodN dims < 2147483648 ->
  dim_consistent n dims = true <-> shape_ok n dims.
Proof. exact dim_consistent_spec. Qed.
Print Assumptions C09_shape_rule.

(* full statement (no range guard) is false of the code: the int product wraps *)
Theorem C09_shape_rule_refuted : dim_consistent 0 [65536; 65536] = true /\ ~ shape_ok 0 [65536; 65536].
Proof. exact dim_consistent_wrap_refuted. Qed.
Print Assumptions C09_shape_rule_refuted.

(* accepted: the parameter takes the type, the values and the dimensions, and keeps name, description, lock;
   refused: range error (and, set being a function of its arguments, the parameter is as it was) *)
Theorem C09_set_ints : forall p data dims,
  (dim_consistent (nlen data) (dims_or_len dims (nlen data)) = true ->
     exists q, set_ints p data dims = Ok q /\ p_type q = TInt /\ p_ints q = data /\
               p_dims q = dims_or_len dims (nlen data) /\ same_meta p q) /\
  (dim_consistent (nlen data) (dims_or_len dims (nlen data)) = false -> set_ints p data dims = Throw RangeError).
Proof. exact set_ints_spec. Qed.
Print Assumptions C09_set_ints.

Theorem C09_set_floats : forall p data dims,
  (dim_consistent (nlen data) (dims_or_len dims (nlen data)) = true ->
     exists q, set_floats p data dims = Ok q /\ p_type q = TFloat /\ p_floats q = data /\
               p_dims q = dims_or_len dims (nlen data) /\ same_meta p q) /\
  (dim_consistent (nlen data) (dims_or_len dims (nlen data)) = false -> set_floats p data dims = Throw RangeError).
Proof. exact set_floats_spec. Qed.
Print Assumptions C09_set_floats.

(* strings gain a leading dimension equal to the longest string *)
Theorem C09_set_strings : forall p data dims,
  (dim_consistent (nlen data) (dims_or_len dims (nlen data)) = true ->
     exists q, set_strs p data dims = Ok q /\ p_type q = TChar /\ p_strs q = data /\
               p_dims q = maxlen data :: dims_or_len dims (nlen data) /\ same_meta p q) /\
  (dim_consistent (nlen data) (dims_or_len dims (nlen data)) = false -> set_strs p data dims = Throw RangeError).
Proof. exact set_strs_spec. Qed.
Print Assumptions C09_set_strings.

Theorem C09_longest_string : forall l,
  (forall s, In s l -> nlen s <= maxlen l) /\ (l <> [] -> exists s, In s l /\ nlen s = maxlen l).
Proof. exact maxlen_spec. Qed.
Print Assumptions C09_longest_string.

(* locking or unlocking a group changes only that flag *)
Theorem C09_lock_only_flag : forall gname b s s', api_lock gname b s = ROk tt s' ->
  hdr s' = hdr s /\ frames s' = frames s /\ pro s' = pro s /\
  exists i g, group_idx (groups s) gname = Ok i /\ nth_error (groups s) (N.to_nat i) = Some g /\
              groups s' = replace_nth (N.to_nat i) (g_set_lock g b) (groups s).
Proof. exact api_lock_spec. Qed.
Print Assumptions C09_lock_only_flag.

Theorem C09_lock_unknown_group : forall gname b s, group_idx (groups s) gname = Throw InvalidArgument ->
  api_lock gname b s = RThrow InvalidArgument s.
Proof. exact api_lock_unknown. Qed.
Print Assumptions C09_lock_unknown_group.

(* non-vacuity: on the initial object a parameter edit is accepted by the executable instance *)
Example C09_nonvacuous :
  exists s', step_x init (OParam nm_POINT (mkParam [88] [100] true TInt [2] [1%Z; 2%Z] [] [])) = ROk tt s' /\
             lookup (groups s') nm_POINT [88] = Ok (mkParam [88] [100] true TInt [2] [1%Z; 2%Z] [] []).
Proof.
  eexists. split; [vm_compute; reflexivity|]. vm_compute; reflexivity.
Qed.
Print Assumptions C09_nonvacuous.
