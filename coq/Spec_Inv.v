(* Spec_Inv.v — the agreement of header, POINT/ANALOG parameters and stored frames (C05),
   as a decidable predicate on states.  Evaluated on every snapshot of the model by the
   extracted code; its Prop reading is Inv. *)
From EZ Require Import Base Types Api.
From EZ Require Import Proofs_Param.   (* lookup *)
Local Open Scope N_scope.

Definition lk_int0 (gs : list group) (g n : bstr) : option N :=
  match lookup gs g n with
  | Ok p => match p_type p, p_ints p with TInt, v :: _ => Some (z_to_usize v) | _, _ => None end
  | _ => None
  end.
Definition lk_count (gs : list group) (g n : bstr) : option N :=
  match lookup gs g n with
  | Ok p => Some (match p_type p with TChar => nlen (p_strs p) | TFloat => nlen (p_floats p) | TInt | TByte => nlen (p_ints p) | TNone => 0 end)
  | _ => None
  end.
Definition lk_strs (gs : list group) (g n : bstr) : option (list bstr) :=
  match lookup gs g n with Ok p => match p_type p with TChar => Some (p_strs p) | _ => None end | _ => None end.

Definition filled (f : frame) : bool := negb ((nlen (fr_pts f) =? 0) && (nlen (fr_subs f) =? 0)).
Definition opt_eqb (o : option N) (v : N) : bool := match o with Some x => x =? v | None => false end.
Fixpoint strs_eqb (a b : list bstr) : bool :=
  match a, b with [], [] => true | x :: a', y :: b' => bstr_eqb x y && strs_eqb a' b' | _, _ => false end.

Record inv_report := mkRep {
  r_points_hdr : bool;      (* header point count = POINT:USED *)
  r_points_frames : bool;   (* = points in each filled frame *)
  r_frames_hdr : bool;      (* header frame count = POINT:FRAMES *)
  r_frames_stored : bool;   (* = number of stored frames *)
  r_subframes : bool;       (* header sub-frames = sub-frames in each filled frame *)
  r_analogs_hdr : bool;     (* when sub-frames >= 1: header channels = ANALOG:USED *)
  r_analogs_meas : bool;    (* samples per frame = channels x sub-frames *)
  r_analogs_frames : bool;  (* channels in each sub-frame *)
  r_label_counts : bool;    (* one entry per point / channel in the label-like lists *)
  r_label_order : bool }.   (* labels in data order *)

Definition inv_report_of (s : state) : inv_report :=
  let gs := groups s in let h := hdr s in
  let used := lk_int0 gs nm_POINT nm_USED in
  let aused := lk_int0 gs nm_ANALOG nm_USED in
  let fl := filter filled (frames s) in
  mkRep
    (opt_eqb used (h_points h))
    (match used with Some u => forallb (fun f => nlen (fr_pts f) =? u) fl | None => false end)
    (opt_eqb (lk_int0 gs nm_POINT nm_FRAMES) (h_nb_frames h))
    (opt_eqb (lk_int0 gs nm_POINT nm_FRAMES) (nlen (frames s)))
    (forallb (fun f => nlen (fr_subs f) =? h_byframe h) fl)
    (if 1 <=? h_byframe h then opt_eqb aused (h_nb_analogs h) else true)
    (if 1 <=? h_byframe h then h_meas h =? h_nb_analogs h * h_byframe h else true)
    (if 1 <=? h_byframe h then
       match aused with Some a => forallb (fun f => forallb (fun sf => nlen sf =? a) (fr_subs f)) fl | None => false end
     else true)
    (match used, aused with
     | Some u, Some a =>
         opt_eqb (lk_count gs nm_POINT nm_LABELS) u && opt_eqb (lk_count gs nm_POINT nm_DESCRIPTIONS) u &&
         opt_eqb (lk_count gs nm_POINT nm_UNITS) u && opt_eqb (lk_count gs nm_ANALOG nm_LABELS) a &&
         opt_eqb (lk_count gs nm_ANALOG nm_DESCRIPTIONS) a && opt_eqb (lk_count gs nm_ANALOG nm_SCALE) a &&
         opt_eqb (lk_count gs nm_ANALOG nm_OFFSET) a && opt_eqb (lk_count gs nm_ANALOG nm_UNITS) a
     | _, _ => false
     end)
    (match frames s with
     | f0 :: _ =>
         (if filled f0 then
            match lk_strs gs nm_POINT nm_LABELS with Some l => strs_eqb l (map pt_name (fr_pts f0)) | None => false end
          else true) &&
         (match fr_subs f0 with
          | sf0 :: _ => match lk_strs gs nm_ANALOG nm_LABELS with Some l => strs_eqb l (map ch_name sf0) | None => false end
          | [] => true
          end)
     | [] => true
     end).

Definition inv_b (s : state) : bool :=
  let r := inv_report_of s in
  r_points_hdr r && r_points_frames r && r_frames_hdr r && r_frames_stored r && r_subframes r &&
  r_analogs_hdr r && r_analogs_meas r && r_analogs_frames r && r_label_counts r && r_label_order r.

Definition Inv (s : state) : Prop := inv_b s = true.
