(* Proofs_Robust.v — the loader on arbitrary bytes (C16): the stream never hands out fewer bytes than
   asked, a failed stream stays failed, and no reader reaches a memory error (an index out of range
   or an empty dimension vector): the only "undefined" verdicts the loader model can return are the
   declared-size blow-up, an out-of-range float conversion in the updater, or fuel exhaustion. *)
From Coq Require Import Lia.
From EZ Require Import Base Bytes Types Api Dec.
Local Open Scope N_scope.

Lemma read_length : forall st n, length (fst (read st n)) = n.
Proof.
  intros st n. unfold read. destruct (st_fail st); cbn [fst]; [apply repeat_length|].
  destruct (length (firstn n (st_rest st)) <? n)%nat eqn:L; cbn [fst].
  - rewrite app_length, repeat_length. apply Nat.ltb_lt in L. lia.
  - apply Nat.ltb_ge in L. pose proof (firstn_le_length n (st_rest st)). lia.
Qed.

Lemma read_failed_sticky : forall st n, st_fail st = true -> read st n = (repeat 0 n, st).
Proof. intros st n H. unfold read. rewrite H. reflexivity. Qed.
Lemma seek_failed_ignored : forall st off, st_fail st = true -> seek st off = st.
Proof. intros st off H. unfold seek. rewrite H. reflexivity. Qed.
Lemma read_keeps_failure : forall st n, st_fail st = true -> st_fail (snd (read st n)) = true.
Proof. intros st n H. rewrite read_failed_sticky by exact H. exact H. Qed.

(* verdicts that are not memory errors *)
Definition benign (t : ub_tag) : Prop :=
  match t with IdxOOB _ | EmptyVec _ | SignedOverflow _ => False | _ => True end.

Definition safe {A} (m : RD A) : Prop := forall st t, m st = UB t -> benign t.

Lemma safe_rret : forall A (a : A), safe (rret a).
Proof. intros A a st t H. discriminate. Qed.
Lemma safe_rthrow : forall A e, safe (@rthrow A e).
Proof. intros A e st t H. discriminate. Qed.
Lemma safe_rub : forall A t, benign t -> safe (@rub A t).
Proof. intros A t B st t' H. unfold rub in H. injection H as <-. exact B. Qed.
Lemma safe_rbind : forall A B (m : RD A) (k : A -> RD B), safe m -> (forall a, safe (k a)) -> safe (rbind m k).
Proof.
  intros A B m k Hm Hk st t H. unfold rbind in H.
  destruct (m st) as [[a st']|e|t'] eqn:E; try discriminate.
  - eapply Hk; eauto.
  - injection H as <-. eapply Hm; eauto.
Qed.
Lemma safe_rlift : forall A (o : outcome A), (forall t, o = UB t -> benign t) -> safe (rlift o).
Proof. intros A o Ho st t H. unfold rlift in H. destruct o; try discriminate. injection H as <-. apply Ho. reflexivity. Qed.
Lemma safe_pure : forall A (f : stream -> A * stream), safe (fun st => Ok (f st)).
Proof. intros A f st t H. discriminate. Qed.

Ltac sstep :=
  match goal with
  | |- safe (rbind _ _) => apply safe_rbind; [|intros ?]
  | |- safe (rret _) => apply safe_rret
  | |- safe (rthrow _) => apply safe_rthrow
  | |- safe (rub _) => apply safe_rub; exact I
  | |- safe (rd_bytes _) => unfold rd_bytes; apply safe_pure
  | |- safe rd_tell => intros ? ? H; discriminate
  | |- safe (rd_seek _) => intros ? ? H; discriminate
  | |- safe rd_failed => intros ? ? H; discriminate
  | |- safe rd_len => intros ? ? H; discriminate
  | |- safe (if ?b then _ else _) => destruct b
  | |- safe (match ?x with _ => _ end) => destruct x
  | |- safe (let '(_, _) := ?p in _) => destruct p
  end.

Lemma safe_rd_int : forall n, safe (rd_int n).
Proof. intros n. unfold rd_int. repeat sstep. Qed.
Lemma safe_rd_uint : forall n, safe (rd_uint n).
Proof. intros n. unfold rd_uint. repeat sstep. Qed.
Lemma safe_rd_float : safe rd_float.
Proof. unfold rd_float. repeat sstep. Qed.
Lemma safe_rd_string : forall n, safe (rd_string n).
Proof. intros n. unfold rd_string. repeat sstep. Qed.
Lemma safe_rd_many : forall A (m : RD A) n, safe m -> safe (rd_many n m).
Proof. intros A m n Hm. induction n as [|n IH]; cbn [rd_many]; [apply safe_rret|]. sstep; [exact Hm|]. sstep; [exact IH|]. sstep. Qed.

Ltac sstep2 :=
  first [ apply safe_rd_int | apply safe_rd_uint | apply safe_rd_float | apply safe_rd_string
        | apply safe_rd_many | sstep ].

Lemma safe_skip_zeros : forall fuel z, safe (skip_zeros fuel z).
Proof. induction fuel as [|f IH]; intros z; cbn [skip_zeros]; [apply safe_rub; exact I|]. repeat first [apply IH | sstep2]. Qed.

Lemma safe_read_header : safe read_header.
Proof. unfold read_header. repeat first [apply safe_skip_zeros | sstep2]. Qed.

Lemma safe_blowup_guard : forall s c, safe (blowup_guard s c).
Proof. intros s c. unfold blowup_guard. repeat sstep2. Qed.

Lemma safe_rbind_post : forall A B (m : RD A) (k : A -> RD B) (P : A -> Prop),
  safe m -> (forall st a st', m st = Ok (a, st') -> P a) -> (forall a, P a -> safe (k a)) -> safe (rbind m k).
Proof.
  intros A B m k P Hm Hp Hk st t H. unfold rbind in H.
  destruct (m st) as [[a st']|e|t'] eqn:E; try discriminate.
  - eapply Hk; eauto.
  - injection H as <-. eapply Hm; eauto.
Qed.

Lemma rd_many_length : forall A (m : RD A) n st l st', rd_many n m st = Ok (l, st') -> length l = n.
Proof.
  intros A m n. induction n as [|n IH]; intros st l st' R; cbn [rd_many] in R.
  - injection R as <- _. reflexivity.
  - unfold rbind in R. destruct (m st) as [[x s1]| |]; try discriminate.
    destruct (rd_many n m s1) as [[tl s2]| |] eqn:R2; try discriminate.
    cbn [rret] in R. injection R as <- _. cbn [length]. f_equal. eapply IH; eauto.
Qed.

(* with at least one dimension the value readers never index an empty vector *)
Lemma safe_read_values : forall ty dims, dims <> [] -> safe (read_values ty dims).
Proof.
  intros ty dims Hd. destruct dims as [|d0 dt]; [congruence|].
  destruct ty; unfold read_values, read_strings, read_ints, read_floats; repeat first [apply safe_blowup_guard | sstep2].
Qed.

Lemma safe_next_pos : forall off, safe (next_pos off).
Proof. intros off. unfold next_pos. repeat sstep2. Qed.

(* Parameter::read: the dimension vector handed to the value readers is never empty (count 0 = scalar [1]) *)
Lemma safe_read_param : forall n, safe (read_param n).
Proof.
  intros n. unfold read_param.
  sstep2; [apply safe_rd_string|]. sstep2; [apply safe_rd_uint|]. sstep2; [apply safe_next_pos|].
  sstep2; [apply safe_rd_int|]. sstep2; [repeat sstep2|]. sstep2; [apply safe_rd_uint|].
  apply (safe_rbind_post _ _ _ _ (fun dims => dims <> [])).
  - destruct (a4 =? 0); [apply safe_rret|apply safe_rd_many, safe_rd_uint].
  - intros st dims st' H. destruct (a4 =? 0) eqn:E.
    + cbn [rret] in H. injection H as <- _. discriminate.
    + apply rd_many_length in H. apply N.eqb_neq in E. intros ->. cbn in H. lia.
  - intros dims Hd. sstep2; [apply safe_read_values, Hd|]. repeat sstep2.
Qed.

Lemma safe_read_group : forall g n, safe (read_group g n).
Proof. intros g n. unfold read_group. repeat first [apply safe_next_pos | sstep2]. Qed.

Lemma safe_walk : forall fuel nxt gs, safe (walk fuel nxt gs).
Proof.
  induction fuel as [|f IH]; intros nxt gs; cbn [walk]; [apply safe_rub; exact I|].
  repeat first [ apply IH | apply safe_read_group | apply safe_read_param
               | apply safe_rlift; intros t H; unfold group_set_param in H; repeat match type of H with context [match ?x with _ => _ end] => destruct x end; discriminate
               | sstep2 ].
Qed.

Lemma safe_read_parameters : forall h, safe (read_parameters h).
Proof. intros h. unfold read_parameters. repeat first [apply safe_walk | sstep2]. Qed.

Lemma safe_read_points : forall n i names, safe (read_points n i names).
Proof. induction n as [|n IH]; intros i names; cbn [read_points]; repeat first [apply IH | sstep2]. Qed.
Lemma safe_read_channels : forall n i names, safe (read_channels n i names).
Proof. induction n as [|n IH]; intros i names; cbn [read_channels]; repeat first [apply IH | sstep2]. Qed.

Lemma lookup_strs_no_ub : forall gs g n t,
  obind (group_named gs g) (fun gr => obind (param_named gr n) values_as_string) = UB t -> benign t.
Proof.
  intros gs g n t H. unfold group_named, group_idx, group_at, param_named, param_idx, param_at, at_, values_as_string in H.
  repeat match type of H with context [match ?x with _ => _ end] => destruct x; cbn [obind] in H end; discriminate.
Qed.

Lemma safe_read_data : forall h pr gs, safe (read_data h pr gs).
Proof.
  intros h pr gs. unfold read_data.
  repeat first [ apply safe_blowup_guard | apply safe_read_points | apply safe_read_channels
               | apply safe_rlift; apply lookup_strs_no_ub | sstep2 ].
Qed.

(* ---------- the header updater: its only undefined verdicts come from the float conversions ---------- *)
Definition msafe {A} (m : Mst A) : Prop := forall s t, m s = RUB t -> benign t.

Lemma msafe_ret : forall A (a : A), msafe (ret a). Proof. intros A a s t H. discriminate. Qed.
Lemma msafe_throw : forall A e, msafe (@throw state A e). Proof. intros A e s t H. discriminate. Qed.
Lemma msafe_getS : msafe (@getS state). Proof. intros s t H. discriminate. Qed.
Lemma msafe_modS : forall f, msafe (@modS state f). Proof. intros f s t H. discriminate. Qed.
Lemma msafe_bind : forall A B (m : Mst A) (k : A -> Mst B), msafe m -> (forall a, msafe (k a)) -> msafe (bind m k).
Proof.
  intros A B m k Hm Hk s t H. unfold bind in H. destruct (m s) as [a s1|e s1|t1] eqn:E; try discriminate.
  - eapply Hk; eauto.
  - injection H as <-. eapply Hm; eauto.
Qed.
Lemma msafe_lift : forall A (o : outcome A), (forall t, o = UB t -> benign t) -> msafe (lift o).
Proof. intros A o Ho s t H. unfold lift in H. destruct o; try discriminate. injection H as <-. apply Ho. reflexivity. Qed.

Lemma at_no_ub : forall A (l : list A) i t, at_ l i <> UB t.
Proof. intros A l i t. unfold at_. destruct (i <? nlen l); [destruct (nth_error l (N.to_nat i))|]; discriminate. Qed.

Lemma group_named_no_ub : forall gs g t, group_named gs g <> UB t.
Proof.
  intros gs g t. unfold group_named, group_idx, group_at. destruct (find_idx _ gs 0); cbn [obind]; [apply at_no_ub|discriminate].
Qed.
Lemma param_named_no_ub : forall g n t, param_named g n <> UB t.
Proof.
  intros g n t. unfold param_named, param_idx, param_at. destruct (find_idx _ (g_params g) 0); cbn [obind]; [apply at_no_ub|discriminate].
Qed.

Ltac mstep :=
  match goal with
  | |- msafe (bind _ _) => apply msafe_bind; [|intros ?]
  | |- msafe (ret _) => apply msafe_ret
  | |- msafe (throw _) => apply msafe_throw
  | |- msafe getS => apply msafe_getS
  | |- msafe (mod_hdr _) => unfold mod_hdr; apply msafe_modS
  | |- msafe (when ?b _) => unfold when; destruct b
  | |- msafe (if ?b then _ else _) => destruct b
  | |- msafe (match ?x with _ => _ end) => destruct x
  end.

Lemma msafe_get_group : forall n, msafe (get_group n).
Proof. intros n. unfold get_group. mstep; [apply msafe_getS|]. apply msafe_lift. intros t H. exfalso. eapply group_named_no_ub; eauto. Qed.
Lemma msafe_get_param : forall g n, msafe (get_param g n).
Proof. intros g n. unfold get_param. mstep; [apply msafe_get_group|]. apply msafe_lift. intros t H. exfalso. eapply param_named_no_ub; eauto. Qed.
Lemma msafe_int0 : forall k g n, msafe (int0 k g n).
Proof.
  intros k g n. unfold int0. mstep; [apply msafe_get_param|]. mstep.
  - apply msafe_lift. intros t H. unfold values_as_int in H. destruct (p_type a); discriminate.
  - apply msafe_lift. intros t H. exfalso. eapply at_no_ub; eauto.
Qed.
Lemma msafe_float0 : forall k g n, msafe (float0 k g n).
Proof.
  intros k g n. unfold float0. mstep; [apply msafe_get_param|]. mstep.
  - apply msafe_lift. intros t H. unfold values_as_float in H. destruct (p_type a); discriminate.
  - apply msafe_lift. intros t H. exfalso. eapply at_no_ub; eauto.
Qed.

Section WithOps.
Variable f_key : f32 -> outcome Z.
Variable f_tosize : f32 -> outcome N.
Variable f_div : f32 -> f32 -> f32.
Hypothesis f_key_benign : forall r t, f_key r = UB t -> benign t.
Hypothesis f_tosize_benign : forall r t, f_tosize r = UB t -> benign t.

Lemma msafe_update_header : forall b, msafe (update_header f_key f_tosize f_div b).
Proof.
  intros b. unfold update_header, uh_rate_points, uh_analogs, uh_frames, byframe_step, analog_rate_step.
  repeat first [ apply msafe_int0 | apply msafe_float0 | apply msafe_get_group
               | apply msafe_lift; intros t H; first [eapply f_key_benign; exact H | eapply f_tosize_benign; exact H]
               | mstep ].
Qed.

(* loading ANY byte sequence: an object, a standard exception, or one of the benign verdicts
   (declared-size blow-up, out-of-range float conversion, fuel) — never an index out of range,
   never an empty dimension vector *)
Theorem load_no_memory_error : forall file t,
  load f_key f_tosize f_div file = UB t -> benign t.
Proof.
  intros file t H. unfold load in H.
  destruct (read_header (open_stream file)) as [[h st1]|e|t1] eqn:E1; try discriminate.
  - destruct (read_parameters h st1) as [[[pr gs] st2]|e|t2] eqn:E2; try discriminate.
    + destruct (update_header f_key f_tosize f_div false (mkState h pr gs [])) as [u s1|e s1|t3] eqn:E3; try discriminate.
      * destruct (read_data (hdr s1) pr gs st2) as [[fs st3]|e|t4] eqn:E4; try discriminate.
        injection H as <-. eapply safe_read_data; eauto.
      * injection H as <-. eapply msafe_update_header; eauto.
    + injection H as <-. eapply safe_read_parameters; eauto.
  - injection H as <-. eapply safe_read_header; eauto.
Qed.

(* and it is one of exactly three outcomes *)
Theorem load_outcomes : forall file,
  (exists s, load f_key f_tosize f_div file = Ok s) \/
  (exists e, load f_key f_tosize f_div file = Throw e) \/
  (exists t, load f_key f_tosize f_div file = UB t /\ benign t).
Proof.
  intros file. destruct (load f_key f_tosize f_div file) as [s|e|t] eqn:E; eauto.
  right. right. exists t. split; [reflexivity|]. eapply load_no_memory_error; eauto.
Qed.
End WithOps.
