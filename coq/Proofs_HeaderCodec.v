(* Proofs_HeaderCodec.v — codec round trip, header stage (C01/C02/C03): Header::read on the 512 bytes Header::write
   emitted returns the header, field by field, with the data-start word c3d::write patched in. *)
From Coq Require Import Lia ZifyNat ZifyN ZifyBool.
From EZ Require Import Base Bytes Types Api Enc Dec Proofs_Bytes Proofs_Bytes4 Proofs_Lookup Proofs_Codec Proofs_Section Proofs_Record.
Local Open Scope N_scope.

Definition u16 (v : N) : Prop := v < 65536.
Definition int32 (z : Z) : Prop := (-2147483648 <= z < 2147483648)%Z.
Definition lab_ok (s : bstr) : Prop := (length s <= 4)%nat /\ no_nul s.
Definition frame_no_ok (v : N) : Prop := v < two64 /\ wrap64 (v + 1) < 65536.

Definition wf_hdr (h : header) : Prop :=
  h_zeros h = 0 /\ h_paddr h = 2 /\ h_check h = 80 /\
  u16 (h_points h) /\ u16 (h_meas h) /\ frame_no_ok (h_first h) /\ frame_no_ok (h_last h) /\ u16 (h_gap h) /\
  int32 (h_scale h) /\ u16 (h_byframe h) /\ wf32 (h_rate h) /\
  h_e1 h = 0%Z /\ h_e2 h = 0%Z /\ h_e3 h = 0%Z /\ h_e4 h = 0%Z /\
  u16 (h_keylab h) /\ u16 (h_keyblk h) /\ u16 (h_four h) /\ u16 (h_nev h) /\
  (Forall wf32 (h_evtime h) /\ length (h_evtime h) = 18%nat) /\
  (Forall u16 (h_evdisp h) /\ length (h_evdisp h) = 9%nat) /\
  (Forall lab_ok (h_evlab h) /\ length (h_evlab h) = 18%nat).

Lemma reads_w2 : forall v, u16 v -> reads (rd_uint 2) (w2 v) v.
Proof.
  intros v H. unfold w2, le_bytesN. pose proof (reads_uint2 (Z.of_N v)) as R. rewrite N2Z.id in R. apply R. unfold u16 in H. lia.
Qed.
Lemma reads_int4 : forall z, int32 z -> reads (rd_int 4) (le_bytes 4 z) z.
Proof.
  intros z H. unfold rd_int. rewrite <- (app_nil_r (le_bytes 4 z)). eapply reads_bind.
  - pose proof (reads_bytes (le_bytes 4 z)) as R. rewrite le_bytes_length in R. exact R.
  - rewrite hex2int_le4 by exact H. apply reads_ret.
Qed.
Lemma reads_zero_words : forall k, (k = 135 \/ k = 22)%nat -> reads (rd_int (2 * k)) (concat (repeat (le_bytes 2 0) k)) 0%Z.
Proof.
  intros k Hk. unfold rd_int. rewrite <- (app_nil_r (concat _)). eapply reads_bind.
  - pose proof (reads_bytes (concat (repeat (le_bytes 2 0) k))) as R.
    assert (L : length (concat (repeat (le_bytes 2 0) k)) = (2 * k)%nat) by (destruct Hk as [-> | ->]; reflexivity).
    rewrite L in R. exact R.
  - assert (E : hex2int (concat (repeat (le_bytes 2 0) k)) = 0%Z) by (destruct Hk as [-> | ->]; vm_compute; reflexivity).
    rewrite E. apply reads_ret.
Qed.

Lemma cstr_label4 : forall s, lab_ok s -> cstr (label4 s) = s.
Proof.
  intros s [L Hn]. unfold label4.
  assert (G : forall k, cstr (firstn (length s + k) (s ++ [0; 0; 0; 0])) = s \/ True) by (intros; right; exact I).
  clear G. revert L. induction Hn as [|b t Hb Ht IH]; intros L.
  - reflexivity.
  - cbn [length] in L. cbn [app firstn cstr].
    destruct t as [|c t']; cbn [length] in *.
    + destruct (b =? 0) eqn:E; [apply N.eqb_eq in E; contradiction|]. reflexivity.
    + destruct (b =? 0) eqn:E; [apply N.eqb_eq in E; contradiction|]. f_equal.
      (* the tail has at most three characters *)
      destruct t' as [|d t'']; cbn [length] in *.
      * inversion Ht as [|? ? Hc _]; subst. cbn. destruct (c =? 0) eqn:E2; [apply N.eqb_eq in E2; contradiction|]. reflexivity.
      * inversion Ht as [|? ? Hc Ht2]; subst. destruct t'' as [|e t3]; cbn [length] in *.
        -- inversion Ht2 as [|? ? Hd _]; subst. cbn. destruct (c =? 0) eqn:E2; [apply N.eqb_eq in E2; contradiction|].
           destruct (d =? 0) eqn:E3; [apply N.eqb_eq in E3; contradiction|]. reflexivity.
        -- destruct t3; cbn [length] in *; [|lia]. inversion Ht2 as [|? ? Hd Ht3]; subst. inversion Ht3 as [|? ? He _]; subst.
           cbn. destruct (c =? 0) eqn:E2; [apply N.eqb_eq in E2; contradiction|].
           destruct (d =? 0) eqn:E3; [apply N.eqb_eq in E3; contradiction|].
           destruct (e =? 0) eqn:E4; [apply N.eqb_eq in E4; contradiction|]. reflexivity.
Qed.
Lemma reads_label : forall s, lab_ok s -> reads (rd_string 4) (label4 s) s.
Proof.
  intros s H. unfold rd_string. rewrite <- (app_nil_r (label4 s)). eapply reads_bind.
  - pose proof (reads_bytes (label4 s)) as R. rewrite label4_length in R. exact R.
  - rewrite (cstr_label4 s H). apply reads_ret.
Qed.

Lemma frame_no_roundtrip : forall v, frame_no_ok v -> u16 (wrap64 (v + 1)) /\ sub64 (wrap64 (v + 1)) 1 = v.
Proof.
  intros v [H1 H2]. split; [exact H2|]. unfold sub64, wrap64, two64 in *.
  Ltac Zify.zify_post_hook ::= Z.div_mod_to_equations. lia.
Qed.

Definition with_dstart (h : header) (d : N) : header :=
  mkHeader (h_zeros h) (h_paddr h) (h_check h) (h_points h) (h_meas h) (h_first h) (h_last h) (h_gap h) (h_scale h) d
           (h_byframe h) (h_rate h) (h_e1 h) (h_e2 h) (h_e3 h) (h_e4 h) (h_keylab h) (h_keyblk h) (h_four h) (h_nev h)
           (h_evtime h) (h_evdisp h) (h_evlab h).

(* everything after the first byte (the parameter block address) *)
Definition header_rest (paddr zeros : N) : RD header :=
  (chk <- rd_uint 1 ;;
   if negb (chk =? 80) then rthrow IosFailure else
   npts <- rd_uint 2 ;; nmeas <- rd_uint 2 ;;
   first <- rd_uint 2 ;; last <- rd_uint 2 ;;
   gap <- rd_uint 2 ;; scale <- rd_int 4 ;;
   dstart <- rd_uint 2 ;; byframe <- rd_uint 2 ;;
   rate <- rd_float ;; e1 <- rd_int 270 ;;
   keylab <- rd_uint 2 ;; keyblk <- rd_uint 2 ;; four <- rd_uint 2 ;;
   nev <- rd_uint 2 ;; e2 <- rd_int 2 ;;
   evt <- rd_many 18 rd_float ;;
   evd <- rd_many 9 (rd_uint 2) ;;
   e3 <- rd_int 2 ;;
   evl <- rd_many 18 (rd_string 4) ;;
   e4 <- rd_int 44 ;;
   rret (mkHeader zeros paddr chk npts nmeas (sub64 first 1) (sub64 last 1) gap scale dstart byframe rate
                  e1 e2 e3 e4 keylab keyblk four nev evt evd evl))%R.

Lemma header_rest_written : forall h d, wf_hdr h -> u16 d ->
  reads (header_rest 2 0) (skipn 1 (header_bytes h d)) (with_dstart h d).
Proof.
  intros h d W Hd.
  destruct W as (Z0 & Pa & Ck & Hp & Hm & Hf & Hl & Hg & Hs & Hb & Hr & E1 & E2 & E3 & E4 & Hk1 & Hk2 & Hk3 & Hn & (Ht & Lt) & (Hv & Lv) & (Hlb & Ll)).
  destruct (frame_no_roundtrip _ Hf) as [Uf Rf]. destruct (frame_no_roundtrip _ Hl) as [Ul Rl].
  unfold header_bytes. cbn [app skipn]. unfold header_rest.
  change (80 :: ?x) with ([80] ++ x).
  eapply reads_bind; [apply reads_uint1; lia|]. change (negb (80 =? 80)) with false. cbv iota.
  eapply reads_bind; [apply (reads_w2 _ Hp)|].
  eapply reads_bind; [apply (reads_w2 _ Hm)|].
  eapply reads_bind; [apply (reads_w2 _ Uf)|].
  eapply reads_bind; [apply (reads_w2 _ Ul)|].
  eapply reads_bind; [apply (reads_w2 _ Hg)|].
  eapply reads_bind; [apply (reads_int4 _ Hs)|].
  eapply reads_bind; [apply (reads_w2 _ Hd)|].
  eapply reads_bind; [apply (reads_w2 _ Hb)|].
  eapply reads_bind; [apply (reads_float _ Hr)|].
  rewrite E1. eapply reads_bind; [apply (reads_zero_words 135); left; reflexivity|].
  eapply reads_bind; [apply (reads_w2 _ Hk1)|].
  eapply reads_bind; [apply (reads_w2 _ Hk2)|].
  eapply reads_bind; [apply (reads_w2 _ Hk3)|].
  eapply reads_bind; [apply (reads_w2 _ Hn)|].
  rewrite E2. eapply reads_bind; [apply reads_int2; lia|].
  eapply reads_bind; [rewrite <- Lt; apply (reads_floats _ Ht)|].
  eapply reads_bind; [rewrite <- Lv; apply (reads_array N (rd_uint 2) w2 u16 _ reads_w2 Hv)|].
  rewrite E3. eapply reads_bind; [apply reads_int2; lia|].
  eapply reads_bind; [rewrite <- Ll; apply (reads_array bstr (rd_string 4) label4 lab_ok _ reads_label Hlb)|].
  rewrite E4. rewrite <- (app_nil_r (concat (repeat (le_bytes 2 0) 22))).
  eapply reads_bind; [apply (reads_zero_words 22); right; reflexivity|].
  rewrite Rf, Rl. unfold with_dstart. rewrite Z0, Pa, Ck, E1, E2, E3, E4. apply reads_ret.
Qed.

Lemma read_header_split : forall st,
  read_header st =
  (rd_seek 0 ;;; a0 <- rd_uint 1 ;; len <- rd_len ;;
   az <- (if a0 =? 0 then skip_zeros (Datatypes.S (N.to_nat len)) 0 else rret (a0, 0)) ;;
   let '(paddr, zeros) := az in header_rest paddr zeros)%R st.
Proof. reflexivity. Qed.

(* THE HEADER: Header::read on the block Header::write emitted *)
Theorem read_header_written : forall h d st rest, wf_hdr h -> wf_header h -> u16 d ->
  st_fail st = false -> st_file st = header_bytes h d ++ rest ->
  read_header st = Ok (with_dstart h d, mkStream (st_file st) 512 rest false).
Proof.
  intros h d st rest W Wl Hd Hf Hfile. rewrite read_header_split.
  unfold rbind at 1. unfold rd_seek. unfold seek. rewrite Hf. change (0 <? 0)%Z with false. cbv iota.
  change (Z.to_N 0) with 0. change (Z.to_nat 0) with 0%nat. cbn [skipn].
  set (st0 := mkStream (st_file st) 0 (st_file st) false).
  assert (Hb : header_bytes h d = 2 :: skipn 1 (header_bytes h d)) by reflexivity.
  assert (R0 : st_rest st0 = 2 :: (skipn 1 (header_bytes h d) ++ rest)).
  { unfold st0. cbn [st_rest]. rewrite Hfile. rewrite Hb at 1. reflexivity. }
  unfold rbind at 1. rewrite (reads_uint1 2 ltac:(lia) st0 _ eq_refl R0).
  unfold rbind at 1. unfold rd_len at 1. change (2 =? 0) with false. cbv iota.
  unfold rbind at 1. unfold rret at 1.
  cbn [length]. rewrite (header_rest_written h d W Hd (adv st0 1 _) rest (adv_fail _ _ _) (adv_rest _ _ _)).
  rewrite adv_adv. f_equal. f_equal. unfold adv, st0. cbn [st_file st_pos].
  assert (L : length (header_bytes h d) = 512%nat) by (apply header_bytes_length; exact Wl).
  assert (L1 : length (skipn 1 (header_bytes h d)) = 511%nat) by (rewrite skipn_length, L; reflexivity).
  rewrite L1. reflexivity.
Qed.
