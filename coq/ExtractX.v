(* ExtractX.v — the executable model of Extract.v PLUS the decision predicates ls_ok_x / ls4_ok_x (hypotheses of the
   round-trip theorems as computable functions).  Kept apart from Extract.v so that the model can still be extracted and
   run when a proof file does not compile: this file needs the whole proof chain of C01. ExtrOcamlBasic only. *)
From Coq Require Import ExtrOcamlBasic.
From EZ Require Import Base Bytes Types Api Float32 Enc Dec IO Heap Run Proofs_Param Spec_Inv Spec_Typed Run_Decide.
Extraction "modelx.ml"
  init step_x lit_point lit_chan new_param set_ints set_floats set_strs set_int1 set_usize1
  p_set_name p_set_desc p_set_lock
  values_as_int values_as_byte values_as_float values_as_string
  at_ group_idx group_at param_idx param_at point_idx channel_idx
  h_nb_analogs h_nb_frames hex2uint hex2int rtrim inv_report_of inv_b mt_b load_x save_x save_io
  heap0 h_new h_set h_view h_mut_pt h_add_pt h_mut_ch h_add_ch d_mut_pt d_mut_ch
  ls_ok_x ls4_ok_x ls_flags_x cert_ok_x cert_flags_x lsn_ok_x ls4n_ok_x lsn_flags_x.
