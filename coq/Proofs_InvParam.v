(* Proofs_InvParam.v — C05 across c3d::parameter(): editing a parameter of any group OTHER than POINT and ANALOG (creating
   the group when it does not exist) leaves the header as it was and header, POINT/ANALOG parameters and stored frames in
   agreement — for every object whose header the header updater has nothing to change (true after any mutator).
   Uses: the tree edit is local (every other group keeps its position and content), the header updater is a function of
   the POINT/ANALOG look-ups, frame 0 and the header (Proofs_Header.update_header_factor). *)
From Coq Require Import Lia ZifyNat ZifyN ZifyBool Bool.
From EZ Require Import Base Types Api Proofs_Lookup Proofs_Param Proofs_Guards Spec_Inv Proofs_Inv Proofs_Header Spec_Typed
  Proofs_Tree Proofs_Updaters Proofs_InvFrame.
Local Open Scope N_scope.

(* ---------- the first element satisfying a predicate only depends on the predicate's values ---------- *)
Lemma find_idx_map : forall A (p : A -> bool) l l' k, map p l = map p l' -> find_idx p l k = find_idx p l' k.
Proof.
  intros A p l. induction l as [|a l IH]; intros l' k H; destruct l' as [|b l']; cbn [map] in H; try discriminate; [reflexivity|].
  injection H as Hab Ht. cbn [find_idx]. rewrite Hab. destruct (p b); [reflexivity|]. apply IH. exact Ht.
Qed.
Lemma find_idx_snoc_false : forall A (p : A -> bool) l x k, p x = false -> find_idx p (l ++ [x]) k = find_idx p l k.
Proof.
  intros A p l x. induction l as [|a l IH]; intros k H; cbn [app find_idx]; [rewrite H; reflexivity|].
  destruct (p a); [reflexivity|]. apply IH. exact H.
Qed.
Lemma map_replace_nth_same : forall A B (f : A -> B) l i x y, nth_error l i = Some y -> f x = f y -> map f (replace_nth i x l) = map f l.
Proof.
  intros A B f l. induction l as [|a l IH]; intros i x y H E; destruct i as [|i]; cbn [replace_nth map nth_error] in *; try discriminate.
  - injection H as ->. rewrite E. reflexivity.
  - f_equal. exact (IH i x y H E).
Qed.

(* every other group is found where it was, as it was *)
Lemma group_named_other : forall gs gname p g2, g2 <> gname -> group_named (tree_after gs gname p) g2 = group_named gs g2.
Proof.
  intros gs gname p g2 Hne. unfold group_named, group_idx, group_at, tree_after.
  set (q := fun g : group => bstr_eqb (g_name g) g2).
  destruct (find_idx (fun g => bstr_eqb (g_name g) gname) gs 0) as [i|] eqn:F.
  - pose proof (find_idx_some _ _ _ _ _ F) as [_ [g0 [Hi [Pg _]]]]. rewrite N.sub_0_r in Hi. rewrite Hi.
    apply bstr_eqb_eq in Pg.
    assert (M : map q (replace_nth (N.to_nat i) (g_set_params g0 (upsert param p_name (g_params g0) p)) gs) = map q gs).
    { apply (map_replace_nth_same _ _ q gs (N.to_nat i) _ g0 Hi). reflexivity. }
    rewrite (find_idx_map _ q _ gs 0 M).
    destruct (find_idx q gs 0) as [j|] eqn:Fj; [|reflexivity]. cbn [obind].
    pose proof (find_idx_some _ _ _ _ _ Fj) as [_ [g1 [Hj [Pj _]]]]. rewrite N.sub_0_r in Hj. apply bstr_eqb_eq in Pj.
    assert (Nij : i <> j). { intros ->. rewrite Hi in Hj. injection Hj as ->. congruence. }
    apply at_replace_other. exact Nij.
  - assert (Fx : q (mkGroup gname [] false [p]) = false).
    { unfold q. cbn [g_name]. destruct (bstr_eqb gname g2) eqn:E; [apply bstr_eqb_eq in E; congruence|reflexivity]. }
    rewrite (find_idx_snoc_false _ q gs _ 0 Fx).
    destruct (find_idx q gs 0) as [j|] eqn:Fj; [|reflexivity]. cbn [obind].
    pose proof (find_idx_bound _ _ _ _ _ Fj) as Bj. rewrite N.add_0_l in Bj.
    destruct (at_in _ gs j Bj) as [x Hx]. rewrite Hx. apply at_ok in Hx. destruct Hx as [_ Hn].
    apply at_ok. split; [unfold nlen in *; rewrite app_length; cbn [length]; lia|]. rewrite nth_error_app1; [exact Hn|unfold nlen in Bj; lia].
Qed.
Lemma lookup_other_group : forall gs gname p g2 n2, g2 <> gname -> lookup (tree_after gs gname p) g2 n2 = lookup gs g2 n2.
Proof. intros gs gname p g2 n2 H. unfold lookup. rewrite (group_named_other gs gname p g2 H). reflexivity. Qed.

(* ---------- what the header updater and the agreement predicate read of the parameter tree ---------- *)
Definition same_shape_reads (gs gs' : list group) : Prop :=
  (forall n, lookup gs' nm_POINT n = lookup gs nm_POINT n) /\ (forall n, lookup gs' nm_ANALOG n = lookup gs nm_ANALOG n) /\
  group_named gs' nm_ANALOG = group_named gs nm_ANALOG.

Section WithOps.
Variable f_key : f32 -> outcome Z.
Variable f_tosize : f32 -> outcome N.
Variable f_div : f32 -> f32 -> f32.

Lemma uh_pure_cong : forall gs gs' f0 h, same_shape_reads gs gs' -> uh_pure f_key f_tosize f_div gs' f0 h = uh_pure f_key f_tosize f_div gs f0 h.
Proof.
  intros gs gs' f0 h [HP [HA HG]].
  assert (RI : forall k g n, (g = nm_POINT \/ g = nm_ANALOG) -> r_int0 k gs' g n = r_int0 k gs g n).
  { intros k g n [->| ->]; unfold r_int0; [rewrite HP|rewrite HA]; reflexivity. }
  assert (RF : forall k g n, (g = nm_POINT \/ g = nm_ANALOG) -> r_float0 k gs' g n = r_float0 k gs g n).
  { intros k g n [->| ->]; unfold r_float0; [rewrite HP|rewrite HA]; reflexivity. }
  unfold uh_pure, rate_points_pure, byframe_pure, analogs_pure, frames_pure.
  rewrite !RI by auto. rewrite !RF by auto. rewrite HG. reflexivity.
Qed.

Lemma inv_report_cong : forall s gs', same_shape_reads (groups s) gs' -> inv_report_of (set_groups s gs') = inv_report_of s.
Proof.
  intros s gs' [HP [HA _]]. unfold inv_report_of, set_groups. cbn [groups hdr frames].
  assert (L1 : forall n, lk_int0 gs' nm_POINT n = lk_int0 (groups s) nm_POINT n) by (intros; apply lk_int0_ext, HP).
  assert (L2 : forall n, lk_int0 gs' nm_ANALOG n = lk_int0 (groups s) nm_ANALOG n) by (intros; apply lk_int0_ext, HA).
  assert (C1 : forall n, lk_count gs' nm_POINT n = lk_count (groups s) nm_POINT n) by (intros; apply lk_count_ext, HP).
  assert (C2 : forall n, lk_count gs' nm_ANALOG n = lk_count (groups s) nm_ANALOG n) by (intros; apply lk_count_ext, HA).
  assert (S1 : forall n, lk_strs gs' nm_POINT n = lk_strs (groups s) nm_POINT n) by (intros; apply lk_strs_ext, HP).
  assert (S2 : forall n, lk_strs gs' nm_ANALOG n = lk_strs (groups s) nm_ANALOG n) by (intros; apply lk_strs_ext, HA).
  rewrite !L1, !L2, !C1, !C2, !S1, !S2. reflexivity.
Qed.

(* THE THEOREM: a parameter edit elsewhere changes neither the header nor the frames, and keeps the agreement *)
Theorem parameter_elsewhere_keeps_inv : forall gname p s s',
  gname <> nm_POINT -> gname <> nm_ANALOG -> p_name p <> [] -> p_type p <> TNone ->
  Inv s -> update_header f_key f_tosize f_div true s = ROk tt s ->
  api_parameter f_key f_tosize f_div gname p s = ROk tt s' ->
  Inv s' /\ hdr s' = hdr s /\ frames s' = frames s /\ groups s' = tree_after (groups s) gname p.
Proof.
  intros gname p s s' NP NA Nn Ht HI Fix H.
  rewrite (api_parameter_factor f_key f_tosize f_div gname p s Nn Ht) in H.
  set (gs' := tree_after (groups s) gname p) in *.
  assert (SR : same_shape_reads (groups s) gs').
  { unfold same_shape_reads, gs'. split; [|split].
    - intros n. apply lookup_other_group. congruence.
    - intros n. apply lookup_other_group. congruence.
    - apply group_named_other. congruence. }
  destruct (update_header_factor f_key f_tosize f_div true _ _ H) as [P E].
  destruct (update_header_factor f_key f_tosize f_div true _ _ Fix) as [P0 _].
  assert (FF : first_frame true (set_groups s gs') = first_frame true s) by reflexivity.
  cbn [groups hdr set_groups] in P. rewrite FF in P. rewrite (uh_pure_cong (groups s) gs' _ _ SR) in P.
  assert (Eh : hdr s' = hdr s) by congruence.
  rewrite Eh in E. assert (Es : s' = set_groups s gs').
  { rewrite E. unfold set_hdr, set_groups. cbn. destruct s; reflexivity. }
  split; [|split; [exact Eh|split; [rewrite Es; reflexivity|rewrite Es; reflexivity]]].
  unfold Inv, inv_b in *. rewrite Es. rewrite (inv_report_cong s gs' SR). exact HI.
Qed.
End WithOps.
