(* Proofs_Section.v — layout arithmetic of the written file (C03): the padding, block count and
   data-start values for EVERY length of the record area, not for sampled ones. *)
From Coq Require Import Lia ZifyN.
From EZ Require Import Base Bytes Types Api Enc.
Local Open Scope N_scope.
Ltac Zify.zify_post_hook ::= Z.div_mod_to_equations.

(* the padding is 1..512 bytes (so there is always an end marker) and ends on a block boundary *)
Lemma pad_range : forall p, 1 <= 512 - p mod 512 <= 512.
Proof. intros p. lia. Qed.
Lemma pad_aligns : forall p, (p + (512 - p mod 512)) mod 512 = 0.
Proof. intros p. lia. Qed.
Lemma pad_blocks : forall p, 512 <= p -> let e := p + (512 - p mod 512) in
  e = 512 * (e / 512) /\ 2 <= e / 512 /\ p < e /\ e <= p + 512.
Proof. intros p H e. unfold e. lia. Qed.

Lemma patch_byte_length : forall l pos b, length (patch_byte l pos b) = length l.
Proof. induction l as [|a l IH]; intros [|n] b; simpl; auto. Qed.

Lemma patch_byte_other : forall l pos b j, j <> pos -> nth_error (patch_byte l pos b) j = nth_error l j.
Proof. induction l as [|a l IH]; intros [|n] b [|j] H; simpl; auto; try congruence. Qed.

Lemma patch_byte_same : forall l pos b, (pos < length l)%nat -> nth_error (patch_byte l pos b) pos = Some b.
Proof. induction l as [|a l IH]; intros [|n] b H; simpl in *; try lia; auto. apply IH. lia. Qed.

Lemma le_bytes_length : forall n v, length (le_bytes n v) = n.
Proof. induction n as [|n IH]; intros v; simpl; auto. Qed.

Lemma concat_repeat_length : forall A (l : list A) n, length (concat (repeat l n)) = (n * length l)%nat.
Proof. induction n as [|n IH]; simpl; [reflexivity|]. rewrite app_length, IH. reflexivity. Qed.

Lemma concat_map_const_length : forall A B (f : A -> list B) l k,
  (forall x, length (f x) = k) -> length (concat (map f l)) = (length l * k)%nat.
Proof. induction l as [|a l IH]; intros k H; simpl; [reflexivity|]. rewrite app_length, H, (IH k H). reflexivity. Qed.

Lemma label4_length : forall s, length (label4 s) = 4%nat.
Proof. intros s. unfold label4. rewrite firstn_length, app_length. cbn [length]. apply Nat.min_l. lia. Qed.

Definition wf_header (h : header) : Prop :=
  length (h_evtime h) = 18%nat /\ length (h_evdisp h) = 9%nat /\ length (h_evlab h) = 18%nat.

(* the header is exactly one block *)
Lemma header_bytes_length : forall h d, wf_header h -> length (header_bytes h d) = 512%nat.
Proof.
  intros h d [H1 [H2 H3]]. unfold header_bytes, w2, w4, le_bytesN.
  repeat rewrite app_length. repeat rewrite le_bytes_length. repeat rewrite concat_repeat_length.
  rewrite (concat_map_const_length _ _ _ (h_evtime h) 4%nat) by (intros; apply le_bytes_length).
  rewrite (concat_map_const_length _ _ _ (h_evdisp h) 2%nat) by (intros; apply le_bytes_length).
  rewrite (concat_map_const_length _ _ _ (h_evlab h) 4%nat) by (intros; apply label4_length).
  rewrite le_bytes_length, H1, H2, H3. reflexivity.
Qed.

(* its first byte is the parameter block address 2, the key byte 0x50 follows, word 9 is the data-start block *)
Lemma header_bytes_fixed : forall h d,
  nth_error (header_bytes h d) 0 = Some 2 /\ nth_error (header_bytes h d) 1 = Some 80 /\
  firstn 2 (skipn 16 (header_bytes h d)) = le_bytesN 2 d.
Proof.
  intros h d. unfold header_bytes. repeat split.
Qed.

Local Opaque N.sub N.modulo N.div N.add N.mul.

(* the parameter section: whole blocks, at least one, ending where the data start *)
Lemma finish_section_shape : forall recs dsp sec blocks, finish_section recs dsp = (sec, blocks) ->
  nlen sec = 512 * (blocks - 1) /\ 2 <= blocks /\
  blocks = (512 + nlen recs + (512 - (512 + nlen recs) mod 512)) / 512.
Proof.
  intros recs dsp sec blocks H. unfold finish_section in H.
  set (p := 512 + nlen recs) in *.
  injection H as Hs Hb.
  assert (L : length sec = (length recs + N.to_nat (512 - p mod 512))%nat).
  { rewrite <- Hs. destruct dsp; repeat rewrite patch_byte_length; rewrite app_length, repeat_length; reflexivity. }
  pose proof (pad_blocks p) as PB. cbv zeta in PB.
  assert (PB' : p + (512 - p mod 512) = 512 * ((p + (512 - p mod 512)) / 512) /\ 2 <= (p + (512 - p mod 512)) / 512 /\
                p < p + (512 - p mod 512) /\ p + (512 - p mod 512) <= p + 512) by (apply PB; unfold p; lia).
  clear PB. rewrite <- Hb. destruct PB' as [E [G2 [G3 G4]]].
  split; [|split; [exact G2|reflexivity]].
  unfold nlen. rewrite L, Nat2N.inj_add, N2Nat.id.
  assert (Ep : p = 512 + N.of_nat (length recs)) by reflexivity.
  remember ((p + (512 - p mod 512)) / 512) as q.
  assert (Pm : p mod 512 < 512) by (apply N.mod_lt; discriminate).
  remember (p mod 512) as m. clear Heqm Heqq Hs L Hb. lia.
Qed.

Lemma section_shape : forall pr gs sec blocks,
  section_bytes pr gs = Ok (sec, blocks) -> nlen sec = 512 * (blocks - 1) /\ 2 <= blocks.
Proof.
  intros pr gs sec blocks H. unfold section_bytes in H.
  destruct (groups_records gs 1%Z 512 _ None) as [[recs dsp]| |]; try discriminate.
  unfold obind in H. assert (H' : finish_section recs dsp = (sec, blocks)) by congruence.
  destruct (finish_section_shape _ _ _ _ H') as [H1 [H2 _]]. auto.
Qed.

(* end marker: the byte after the last record is a zero name length (the first padding byte), unless it
   is the DATA_START slot itself being patched — it never is, the slot lies inside a record *)
Lemma section_end_marker : forall (recs : list N) (pad : nat), (0 < pad)%nat ->
  nth_error (recs ++ repeat 0 pad) (length recs) = Some 0.
Proof.
  intros recs pad H. rewrite nth_error_app2 by lia. rewrite Nat.sub_diag. destruct pad; [lia|reflexivity].
Qed.

(* the whole file: header block, section blocks, then the data, whose length is the sum over frames *)
Lemma save_layout : forall s bytes, wf_header (hdr s) -> save s = Ok bytes ->
  exists sec blocks, section_bytes (pro s) (groups s) = Ok (sec, blocks) /\
    bytes = header_bytes (hdr s) (blocks + 1) ++ sec ++ data_section (frames s) /\
    length (header_bytes (hdr s) (blocks + 1)) = 512%nat /\
    nlen sec = 512 * (blocks - 1) /\
    nlen bytes = 512 * blocks + nlen (data_section (frames s)).
Proof.
  intros s bytes Hw H. unfold save in H.
  destruct (section_bytes (pro s) (groups s)) as [[sec blocks]| |] eqn:S; unfold obind in H; try discriminate.
  assert (Hb : bytes = header_bytes (hdr s) (blocks + 1) ++ sec ++ data_section (frames s)) by congruence.
  subst bytes. clear H. exists sec, blocks. split; [reflexivity|]. split; [reflexivity|].
  pose proof (header_bytes_length (hdr s) (blocks + 1) Hw) as HL.
  destruct (section_shape _ _ _ _ S) as [L1 L2].
  split; [exact HL|]. split; [exact L1|].
  unfold nlen in *. rewrite (app_length (header_bytes _ _)), app_length, HL.
  rewrite !Nat2N.inj_add, L1. replace (N.of_nat 512) with 512 by reflexivity. lia.
Qed.

(* data section: each frame contributes 16 bytes per point and 4 per analog sample, nothing else *)
Lemma frame_bytes_length : forall f,
  length (frame_bytes f) = (16 * length (fr_pts f) + 4 * length (concat (fr_subs f)))%nat.
Proof.
  intros f. unfold frame_bytes. rewrite app_length.
  rewrite (concat_map_const_length _ _ point_bytes (fr_pts f) 16%nat).
  2:{ intros p. unfold point_bytes, w4, le_bytesN. repeat rewrite app_length. repeat rewrite le_bytes_length. reflexivity. }
  f_equal; [lia|].
  induction (fr_subs f) as [|sf t IH]; cbn [map concat]; [reflexivity|].
  rewrite !app_length, IH.
  rewrite (concat_map_const_length _ _ (fun c => w4 (ch_v c)) sf 4%nat) by (intros; apply le_bytes_length). lia.
Qed.
