(* Properties_C10.v — C10: a refused call leaves the object unchanged.
   FULL STATEMENT (visible): C10_full_statement.  It is false of the code for objects whose
   mandatory parameters were retyped (known finding, witness below); what is proved: every
   refusal by a documented guard returns the state as it was, and the only remaining way for
   frame() to throw is from the updaters after the store (C10_frame_throw_cases). *)
From EZ Require Import Base Types Api Proofs_Param Proofs_Store Proofs_Guards Proofs_Refuse Float32 Run.
Local Open Scope N_scope.

Definition C10_full_statement : Prop := forall f_key f_tosize f_div f_is_zero s o e s',
  step f_key f_tosize f_div f_is_zero s o = RThrow e s' -> s' = s.

Theorem C10_unnamed_parameter : forall f_key f_tosize f_div g p s, p_name p = [] ->
  api_parameter f_key f_tosize f_div g p s = RThrow InvalidArgument s.
Proof. exact api_parameter_unnamed. Qed.
Print Assumptions C10_unnamed_parameter.

Theorem C10_untyped_parameter : forall f_key f_tosize f_div g p s, p_name p <> [] -> p_type p = TNone ->
  api_parameter f_key f_tosize f_div g p s = RThrow RuntimeError s.
Proof. exact api_parameter_untyped. Qed.
Print Assumptions C10_untyped_parameter.

Theorem C10_unknown_group : forall gname b s, group_idx (groups s) gname = Throw InvalidArgument ->
  api_lock gname b s = RThrow InvalidArgument s.
Proof. exact api_lock_unknown. Qed.
Print Assumptions C10_unknown_group.

Theorem C10_refused_frame : forall f_key f_tosize f_div f_is_zero f idx s e,
  frame_guard f_is_zero (groups s) (hdr s) f = Throw e ->
  api_frame f_key f_tosize f_div f_is_zero f idx s = RThrow e s.
Proof. exact api_frame_guard_refusal. Qed.
Print Assumptions C10_refused_frame.

Theorem C10_frame_beyond_capacity : forall f_key f_tosize f_div f_is_zero f i s,
  frame_guard f_is_zero (groups s) (hdr s) f = Ok tt ->
  nlen (frames s) <= i -> max_index < i -> i <> size_max ->
  api_frame f_key f_tosize f_div f_is_zero f (Some i) s = RThrow LengthError s.
Proof. exact api_frame_capacity_refusal. Qed.
Print Assumptions C10_frame_beyond_capacity.

Theorem C10_partial_frame_throw_cases : forall f_key f_tosize f_div f_is_zero f idx s e s',
  api_frame f_key f_tosize f_div f_is_zero f idx s = RThrow e s' ->
  s' = s \/
  (frame_guard f_is_zero (groups s) (hdr s) f = Ok tt /\
   exists fs, put empty_frame (frames s) f idx = Ok fs /\
              update_parameters f_key f_tosize f_div [] [] (set_frames s fs) = RThrow e s').
Proof. exact api_frame_throw_cases. Qed.
Print Assumptions C10_partial_frame_throw_cases.

Theorem C10_refused_point_column : forall f_key f_tosize f_div news s labels x,
  r_strs (groups s) nm_POINT nm_LABELS = Ok labels ->
  (forall n n0, nth_error news 0 = Some n0 -> In n news -> nlen (fr_pts n0) <= nlen (fr_pts n)) ->
  doc_pointcol (nlen (frames s)) labels news = Some x ->
  api_point_col f_key f_tosize f_div news s = RThrow x s.
Proof. exact api_point_col_refusal. Qed.
Print Assumptions C10_refused_point_column.

(* the full statement is false of the faithful model: replacing POINT:USED by a FLOAT parameter throws
   from the updater after the replacement *)
Example C10_retyped_refuted :
  let p := mkParam nm_USED [] false TFloat [1] [] [1065353216] [] in
  exists e s', step_x init (OParam nm_POINT p) = RThrow e s' /\ groups s' <> groups init.
Proof. do 2 eexists. split; [vm_compute; reflexivity|]. vm_compute. discriminate. Qed.
Print Assumptions C10_retyped_refuted.

(* non-vacuity: a refused frame on a concrete object, state returned unchanged *)
Example C10_nonvacuous :
  exists s1, step_x init (OPoint [97]) = ROk tt s1 /\
             step_x s1 (OFrame (mkFrame [mkPoint [97] 0 0 0 0] []) None) = RThrow RuntimeError s1.
Proof. eexists. split; [vm_compute; reflexivity|]. vm_compute; reflexivity. Qed.
Print Assumptions C10_nonvacuous.
