(* Properties_C10.v — C10: a refused call leaves the object unchanged.
   FULL STATEMENT (visible): C10_full_statement.  It is false of the code for objects whose
   mandatory parameters were retyped (known finding, witness below); what is proved: every
   refusal by a documented guard returns the state as it was; and on objects whose mandatory parameters are well typed
   (mt_b) ANY throw of frame(), parameter(), point(frames), point(name)/analog(name)-before-data leaves the object
   as it was, because the updaters that run after the mutation do not throw (Proofs_Updaters.v); the same for
   analog(frames) on frames of uniform shape (Proofs_AnalogCol.v); lock/unlock are trivial (C10_unknown_group). *)
From EZ Require Import Base Types Api Proofs_Param Proofs_Store Proofs_Guards Proofs_Refuse Spec_Typed Proofs_Updaters Proofs_AnalogCol Spec_Inv Float32 Run.
Local Open Scope N_scope.

Definition C10_full_statement : Prop := forall f_key f_tosize f_div f_is_zero s o e s',
  step f_key f_tosize f_div f_is_zero s o = RThrow e s' -> s' = s.

Theorem C10_unnamed_parameter : forall f_key f_tosize f_div g p s, p_name p = [] ->
  api_parameter f_key f_tosize f_div g p s = RThrow InvalidArgument s.
Proof. exact api_parameter_unnamed. Qed.
Print Assumptions C10_unnamed_parameter.

Theorem C10_untyped_parameter : forall f_key f_tosize f_div g p s, p_name p <> [] -> p_type p = TNone ->
  api_parameter f_key f_tosize f_div g p s = RThrow RuntimeError s.
Proof. exact api_parameter_untyped. Qed.
Print Assumptions C10_untyped_parameter.

Theorem C10_unknown_group : forall gname b s, group_idx (groups s) gname = Throw InvalidArgument ->
  api_lock gname b s = RThrow InvalidArgument s.
Proof. exact api_lock_unknown. Qed.
Print Assumptions C10_unknown_group.

Theorem C10_refused_frame : forall f_key f_tosize f_div f_is_zero f idx s e,
  frame_guard f_is_zero (groups s) (hdr s) f = Throw e ->
  api_frame f_key f_tosize f_div f_is_zero f idx s = RThrow e s.
Proof. exact api_frame_guard_refusal. Qed.
Print Assumptions C10_refused_frame.

Theorem C10_frame_beyond_capacity : forall f_key f_tosize f_div f_is_zero f i s,
  frame_guard f_is_zero (groups s) (hdr s) f = Ok tt ->
  nlen (frames s) <= i -> max_index < i -> i <> size_max ->
  api_frame f_key f_tosize f_div f_is_zero f (Some i) s = RThrow LengthError s.
Proof. exact api_frame_capacity_refusal. Qed.
Print Assumptions C10_frame_beyond_capacity.

Theorem C10_partial_frame_throw_cases : forall f_key f_tosize f_div f_is_zero f idx s e s',
  api_frame f_key f_tosize f_div f_is_zero f idx s = RThrow e s' ->
  s' = s \/
  (frame_guard f_is_zero (groups s) (hdr s) f = Ok tt /\
   exists fs, put empty_frame (frames s) f idx = Ok fs /\
              update_parameters f_key f_tosize f_div [] [] (set_frames s fs) = RThrow e s').
Proof. exact api_frame_throw_cases. Qed.
Print Assumptions C10_partial_frame_throw_cases.

Theorem C10_refused_point_column : forall f_key f_tosize f_div news s labels x,
  r_strs (groups s) nm_POINT nm_LABELS = Ok labels ->
  (forall n n0, nth_error news 0 = Some n0 -> In n news -> nlen (fr_pts n0) <= nlen (fr_pts n)) ->
  doc_pointcol (nlen (frames s)) labels news = Some x ->
  api_point_col f_key f_tosize f_div news s = RThrow x s.
Proof. exact api_point_col_refusal. Qed.
Print Assumptions C10_refused_point_column.

(* frame(): COMPLETE.  On an object whose mandatory POINT/ANALOG parameters are well typed (mt_b, a computable
   predicate: the getters the updaters use would succeed) and whose stored sizes fit the 32-bit int of the setters,
   ANY throw of frame() leaves the object as it was: the guards refuse before the store, and the updaters that run
   after the store do not throw.  The conversions f_key/f_tosize are undefined outside their range (C19), never a throw. *)
Theorem C10_frame_any_throw_unchanged : forall f_key f_tosize f_div f_is_zero,
  (forall x e, f_key x <> Throw e) -> (forall x e, f_tosize x <> Throw e) ->
  forall f idx s e s',
  MT (groups s) -> (forall fs', put empty_frame (frames s) f idx = Ok fs' -> small_frames fs') ->
  api_frame f_key f_tosize f_div f_is_zero f idx s = RThrow e s' -> s' = s.
Proof. exact api_frame_throw_unchanged. Qed.
Print Assumptions C10_frame_any_throw_unchanged.

(* parameter(): COMPLETE up to the known finding.  A throw leaves the object as it was whenever the tree the call produces
   (tree_after, the documented replace-or-append) still has well-typed mandatory parameters; the other case — the call
   retypes or empties one of them — is the known finding mandatory-parameter-retyped (witness below). *)
Theorem C10_parameter_any_throw_unchanged : forall f_key f_tosize f_div,
  (forall x e, f_key x <> Throw e) -> (forall x e, f_tosize x <> Throw e) ->
  forall gname p s e s',
  (p_name p <> [] -> p_type p <> TNone -> MT (tree_after (groups s) gname p)) ->
  api_parameter f_key f_tosize f_div gname p s = RThrow e s' -> s' = s.
Proof. exact api_parameter_throw_unchanged. Qed.
Print Assumptions C10_parameter_any_throw_unchanged.

(* point(frames): COMPLETE for columns of uniform height on well-typed objects *)
Theorem C10_point_column_any_throw_unchanged : forall f_key f_tosize f_div,
  (forall x e, f_key x <> Throw e) -> (forall x e, f_tosize x <> Throw e) ->
  forall news s e s',
  MT (groups s) ->
  (forall n n0, nth_error news 0 = Some n0 -> In n news -> nlen (fr_pts n0) <= nlen (fr_pts n)) ->
  (forall k s1, point_cols k 0 news s = ROk tt s1 -> small_frames (frames s1)) ->
  api_point_col f_key f_tosize f_div news s = RThrow e s' -> s' = s.
Proof. exact api_point_col_throw_unchanged. Qed.
Print Assumptions C10_point_column_any_throw_unchanged.

(* analog(frames): COMPLETE for supplied and stored frames of uniform shape on well-typed objects: the validation pass
   accepts exactly what the mutation pass can carry out (chan_cols_total), and the updaters do not throw *)
Theorem C10_analog_column_any_throw_unchanged : forall f_key f_tosize f_div,
  (forall x e, f_key x <> Throw e) -> (forall x e, f_tosize x <> Throw e) ->
  forall news s e s',
  MT (groups s) ->
  uniform_chancol (N.to_nat (h_byframe (hdr s))) (width0 news) (frames s) news ->
  (forall k s1, chan_cols k 0 news s = ROk tt s1 -> small_frames (frames s1)) ->
  api_analog_col f_key f_tosize f_div news s = RThrow e s' -> s' = s.
Proof. exact api_analog_col_throw_unchanged. Qed.
Print Assumptions C10_analog_column_any_throw_unchanged.

(* point(name) / analog(name) before any frame: the declaration is the updater alone, which does not throw *)
Theorem C10_declare_never_throws : forall f_key f_tosize f_div,
  (forall x e, f_key x <> Throw e) -> (forall x e, f_tosize x <> Throw e) ->
  forall nP nA s e s',
  MT (groups s) -> frames s = [] -> npts0 s nP < 2147483648 -> nan0 s nA < 2147483648 ->
  update_parameters f_key f_tosize f_div nP nA s <> RThrow e s'.
Proof. exact declare_without_frames_never_throws. Qed.
Print Assumptions C10_declare_never_throws.

(* the updater itself: no throw, parameters stay well typed, frames and prologue untouched *)
Theorem C10_update_parameters_never_throws : forall f_key f_tosize f_div,
  (forall x e, f_key x <> Throw e) -> (forall x e, f_tosize x <> Throw e) ->
  forall nP nA s0,
  MT (groups s0) -> (frames s0 = [] \/ (nP = [] /\ nA = [])) ->
  nlen (frames s0) < 2147483648 -> npts0 s0 nP < 2147483648 -> nan0 s0 nA < 2147483648 ->
  forall e s', update_parameters f_key f_tosize f_div nP nA s0 <> RThrow e s'.
Proof.
  intros f_key f_tosize f_div K1 K2 nP nA s0 M G S1 S2 S3 e s' E.
  pose proof (update_parameters_total f_key f_tosize f_div K1 K2 nP nA s0 M G S1 S2 S3 s0 eq_refl) as T. rewrite E in T. exact T.
Qed.
Print Assumptions C10_update_parameters_never_throws.

(* non-vacuity: the hypotheses hold of the new object and of an object with data, on the executable instance *)
Example C10_frame_hypotheses_hold :
  MT (groups init) /\
  (forall x e, f_key_impl x <> Throw e) /\ (forall x e, f_tosize_impl x <> Throw e) /\
  (let rate := mkParam nm_RATE [] false TFloat [1] [] [1120403456] [] in
   exists s1 s2 s3, step_x init (OPoint [97]) = ROk tt s1 /\ step_x s1 (OParam nm_POINT rate) = ROk tt s2 /\
    step_x s2 (OFrame (mkFrame [mkPoint [97] 1 2 3 4] []) None) = ROk tt s3 /\ mt_b (groups s3) = true /\ small_frames (frames s3)).
Proof.
  split; [vm_compute; reflexivity|]. split; [exact f_key_impl_nothrow|]. split; [exact f_tosize_impl_nothrow|].
  do 3 eexists. split; [vm_compute; reflexivity|]. split; [vm_compute; reflexivity|]. split; [vm_compute; reflexivity|]. split; [vm_compute; reflexivity|].
  unfold small_frames. vm_compute. repeat split; reflexivity.
Qed.
Print Assumptions C10_frame_hypotheses_hold.

(* the full statement is false of the faithful model: replacing POINT:USED by a FLOAT parameter throws
   from the updater after the replacement *)
Example C10_retyped_refuted :
  let p := mkParam nm_USED [] false TFloat [1] [] [1065353216] [] in
  exists e s', step_x init (OParam nm_POINT p) = RThrow e s' /\ groups s' <> groups init.
Proof. do 2 eexists. split; [vm_compute; reflexivity|]. vm_compute. discriminate. Qed.
Print Assumptions C10_retyped_refuted.

(* non-vacuity: a refused frame on a concrete object, state returned unchanged *)
Example C10_nonvacuous :
  exists s1, step_x init (OPoint [97]) = ROk tt s1 /\
             step_x s1 (OFrame (mkFrame [mkPoint [97] 0 0 0 0] []) None) = RThrow RuntimeError s1.
Proof. eexists. split; [vm_compute; reflexivity|]. vm_compute; reflexivity. Qed.
Print Assumptions C10_nonvacuous.

(* the repaired defect 4562b61 on the executable instance: an object with one point and one frame whose ANALOG group holds NO
   parameter (a file may come so: Optotrak); point("n") is accepted, every frame gains the point, POINT:USED follows, and the
   empty group is left alone *)
Definition c10_empty_analog : state :=
  let rate := mkParam nm_RATE [] false TFloat [1] [] [1120403456] [] in
  match step_x init (OPoint [97]) with ROk _ s1 =>
  match step_x s1 (OParam nm_POINT rate) with ROk _ s2 =>
  match step_x s2 (OFrame (mkFrame [mkPoint [97] 1 2 3 4] []) None) with ROk _ s3 =>
    set_groups s3 (map (fun g => if bstr_eqb (g_name g) nm_ANALOG then g_set_params g [] else g) (groups s3))
  | _ => init end | _ => init end | _ => init end.
Example C10_empty_analog_group_accepts_a_point :
  exists s', step_x c10_empty_analog (OPoint [110]) = ROk tt s' /\
    map (fun f => map pt_name (fr_pts f)) (frames s') = [[[97]; [110]]] /\
    lk_int0 (groups s') nm_POINT nm_USED = Some 2 /\
    group_named (groups s') nm_ANALOG = Ok (mkGroup nm_ANALOG [] false []).
Proof. eexists. split; [vm_compute; reflexivity|]. repeat split; vm_compute; reflexivity. Qed.
Print Assumptions C10_empty_analog_group_accepts_a_point.
